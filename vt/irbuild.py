"""
case -> GTIRB module, built with the plain gtirb API (never the library under
test).  The CFG is computed from the listing, so the input CFG is consistent
with the code by construction.
"""
import uuid as uuidlib

import gtirb
from gtirb_test_helpers import create_test_module

from . import vocab
from .listing import Listing

ISA = {"x64": gtirb.Module.ISA.X64, "ia32": gtirb.Module.ISA.IA32,
       "arm64": gtirb.Module.ISA.ARM64, "mips32": gtirb.Module.ISA.MIPS32}
FMT = {"elf": gtirb.Module.FileFormat.ELF, "pe": gtirb.Module.FileFormat.PE}
SEC_BASE = 0x100000

TEXT_FLAGS = {gtirb.Section.Flag.Readable, gtirb.Section.Flag.Executable,
              gtirb.Section.Flag.Loaded, gtirb.Section.Flag.Initialized}
DATA_FLAGS = {gtirb.Section.Flag.Readable, gtirb.Section.Flag.Writable,
              gtirb.Section.Flag.Loaded, gtirb.Section.Flag.Initialized}


class Built:
    """Handles kept by the harness to find things again after the rewrite."""

    def __init__(self):
        self.ir = None
        self.module = None
        self.blocks = {}      # bid -> gtirb block
        self.intervals = []   # [sec][iv] -> ByteInterval
        self.sections = []    # [sec] -> Section
        self.symbols = {}     # name -> Symbol
        self.extern_proxies = {}  # name -> ProxyBlock
        self.func_uuid = {}   # fname -> uuid
        self.functions = []   # gtirb_functions.Function list (built lazily)
        self.anon_proxies = set()


def seeded_uuid(rng):
    return uuidlib.UUID(int=rng.getrandbits(128), version=4)


def build(case, rng=None):
    lst = Listing(case)
    lst.layout()
    isa = case["isa"]
    # position-independent: "DYN" is in the list, whatever else is
    bt = list(case.get("bintype") or ["DYN"]) if case.get("pie") \
        else ["EXEC"]
    ir, m = create_test_module(FMT[case["fmt"]], ISA[isa], bt)
    if m.byte_order == gtirb.Module.ByteOrder.Undefined:
        m.byte_order = gtirb.Module.ByteOrder.Little
    bu = Built()
    bu.ir, bu.module = ir, m
    sizes = m.aux_data["symbolicExpressionSizes"].data
    comments = m.aux_data["comments"].data
    padding = m.aux_data["padding"].data
    if "alignment" not in m.aux_data and case.get("alignment_table", True):
        m.aux_data["alignment"] = gtirb.AuxData(
            type_name="mapping<UUID,uint64_t>", data=dict())
    if not case.get("alignment_table", True):
        m.aux_data.pop("alignment", None)
    m.aux_data["types"] = gtirb.AuxData(
        type_name="mapping<UUID,string>", data=dict())
    m.aux_data["profile"] = gtirb.AuxData(
        type_name="mapping<UUID,uint64_t>", data=dict())

    for name in case.get("externs", []):
        p = gtirb.ProxyBlock()
        m.proxies.add(p)
        s = gtirb.Symbol(name, payload=p)
        m.symbols.add(s)
        bu.symbols[name] = s
        bu.extern_proxies[name] = p
        if case["fmt"] == "elf":
            m.aux_data["elfSymbolInfo"].data[s] = (
                0, "FUNC", "GLOBAL", "DEFAULT", 0)

    bu.leads = [[iv.get("lead", 0) for iv in sec["ivs"]]
                for sec in case["secs"]]
    # first pass: sections, intervals, blocks, labels
    pending_exprs = []
    for si, sec in enumerate(case["secs"]):
        gs = gtirb.Section(
            name=sec["name"],
            flags=set(TEXT_FLAGS if sec["exec"] else DATA_FLAGS))
        gs.module = m
        m.aux_data["sectionProperties"].data[gs] = (
            (1, 6) if sec["exec"] else (1, 3))
        bu.sections.append(gs)
        ivl = []
        addr = SEC_BASE * (si + 1)
        for ii, iv in enumerate(sec["ivs"]):
            if ii:
                addr += iv.get("gap", 0)
            toks = lst.secs[si][ii]
            contents = b"".join(t.data for t in toks if t.t in "ID")
            if iv.get("uninit"):
                bi = gtirb.ByteInterval(
                    contents=contents[:len(contents) - iv["uninit"]],
                    size=len(contents), address=addr)
            else:
                bi = gtirb.ByteInterval(contents=contents, address=addr)
            bi.section = gs
            ivl.append(bi)
            # blocks
            cur = None
            for t in toks:
                if t.t == "B":
                    blk = lst.block_info[t.bid]["blk"]
                    cls = gtirb.CodeBlock if blk["code"] else gtirb.DataBlock
                    cur = cls(offset=t.ivpos, size=0)
                    cur.byte_interval = bi
                    bu.blocks[t.bid] = cur
                    if blk.get("align"):
                        m.aux_data["alignment"].data[cur] = blk["align"]
                    if not blk["code"] and blk.get("dtype"):
                        m.aux_data["types"].data[cur] = blk["dtype"]
                        m.aux_data["encodings"].data[cur] = "string"
                    if blk["code"]:
                        m.aux_data["SCCs"].data[cur] = t.bid
                        m.aux_data["profile"].data[cur] = 100 + t.bid
                elif t.t in "ID" and cur is None:
                    continue      # uncovered bytes in front of the blocks
                elif t.t in "ID":
                    cur.size += t.size
                    if t.target is not None:
                        pending_exprs.append((bi, t))
                    for table, val in t.ann.items():
                        if table.endswith("@iv"):
                            key = gtirb.Offset(bi, t.ivpos)
                        else:
                            key = gtirb.Offset(cur, t.ivpos - cur.offset)
                        tname = table.split("@")[0]
                        if tname == "comments":
                            comments[key] = val
                        elif tname == "padding":
                            padding[key] = val
                elif t.t == "L":
                    s = gtirb.Symbol(t.name, payload=bu.blocks[t.bid],
                                     at_end=t.at_end)
                    m.symbols.add(s)
                    bu.symbols[t.name] = s
            addr += len(contents)
        bu.intervals.append(ivl)

    # CFI directives given per block as {boundary index: [[name, args, sym]]}
    NULLU = uuidlib.UUID(int=0)
    cfi = m.aux_data["cfiDirectives"].data
    for bid, info in lst.block_info.items():
        spec = info["blk"].get("cfi")
        if not spec:
            continue
        offs = lst.item_offsets(bid)
        for k, ds in spec.items():
            cfi[gtirb.Offset(bu.blocks[bid], offs[int(k)])] = [
                (d[0], list(d[1]),
                 bu.symbols[d[2]] if d[2] else NULLU) for d in ds]

    for bi, t in pending_exprs:
        off, size = t.sym
        attrs = set()
        expr = gtirb.SymAddrConst(t.addend, bu.symbols[t.target], attrs)
        bi.symbolic_expressions[t.ivpos + off] = expr
        sizes[gtirb.Offset(bi, t.ivpos + off)] = size

    # functions
    for f in case.get("funcs", []):
        fu = seeded_uuid(rng) if rng else uuidlib.uuid4()
        bu.func_uuid[f["name"]] = fu
        m.aux_data["functionBlocks"].data[fu] = {
            bu.blocks[b] for b in f["blocks"]}
        m.aux_data["functionEntries"].data[fu] = {
            bu.blocks[b] for b in f["entries"]}
        m.aux_data["functionNames"].data[fu] = bu.symbols[f["name"]]
        if case["fmt"] == "elf":
            m.aux_data["elfSymbolInfo"].data[bu.symbols[f["name"]]] = (
                0, "FUNC", "GLOBAL", "DEFAULT", 0)
    if not case.get("funcs") and case.get("no_function_tables"):
        for tname in ("functionBlocks", "functionEntries", "functionNames"):
            del m.aux_data[tname]

    if case.get("entry") is not None:
        m.entry_point = bu.blocks[case["entry"]]
    if case.get("safeseh"):
        m.aux_data["peSafeExceptionHandlers"] = gtirb.AuxData(
            {bu.blocks[b] for b in case["safeseh"]}, "set<UUID>")

    if case.get("no_expr_sizes_table"):
        del m.aux_data["symbolicExpressionSizes"]
    build_cfg(case, lst, bu)
    return bu, lst


def expected_edges(lst, labels):
    """
    The per-instruction control-flow relation of a (possibly edited) listing.
    Returns (edges, instrs) where edges is a set of
      (sec, src_pos, type, conditional, direct, target)
    target = ("pos", sec, lin) | ("proxydel", bid) | ("extern", name) |
             ("anon",)
    plus the set of src positions whose fallthrough is a don't-care.
    """
    edges = set()
    edge_label = {}         # (sec, pos, type) -> target label name
    ft_dontcare = set()     # (sec, pos): fallthrough not judged
    instr_at = {}           # (sec, pos) -> Tok for instructions
    for si in range(len(lst.secs)):
        for t, _ in lst.code_stream(si):
            if t.t == "I":
                instr_at.setdefault((si, t.pos), t)

    def resolve(name):
        if name in labels:
            return labels[name]
        return ("extern", name)

    calls = []  # (sec, call tok, site pos or None, target)
    for si in range(len(lst.secs)):
        seq = lst.code_stream(si)
        for k, (t, contiguous) in enumerate(seq):
            if t.t != "I":
                continue
            nxt = seq[k + 1][0] if contiguous and k + 1 < len(seq) else None
            nxt_code = nxt if nxt is not None and nxt.t == "I" else None
            src = (si, t.pos)
            if t.kind in ("ord", "call", "jcc", "icall", "syscall"):
                if nxt_code is not None:
                    edges.add((si, t.pos, "ft", False, True,
                               ("pos", si, nxt_code.pos)))
                else:
                    ft_dontcare.add(src)
            elif t.kind == "halt":
                ft_dontcare.add(src)
            if t.kind in ("jmp", "jcc"):
                edges.add((si, t.pos, "branch", t.kind == "jcc", True,
                           resolve(t.target)))
                edge_label[(si, t.pos, "branch")] = t.target
            elif t.kind == "call":
                tgt = resolve(t.target)
                edge_label[(si, t.pos, "call")] = t.target
                edges.add((si, t.pos, "call", False, True, tgt))
                calls.append((si, t, nxt_code.pos if nxt_code else None,
                              tgt))
            elif t.kind == "syscall":
                edges.add((si, t.pos, "syscall", False, False, ("anon",)))
            elif t.kind in ("ijmp", "icall"):
                et = "branch" if t.kind == "ijmp" else "call"
                if t.target is not None:
                    # through memory named by a symbol: the edge leads to
                    # that symbol's referent, marked indirect
                    edges.add((si, t.pos, et, False, False,
                               resolve(t.target)))
                    edge_label[(si, t.pos, et)] = t.target
                else:
                    edges.add((si, t.pos, et, False, False, ("anon",)))
    # return edges
    sites_by_fn = {}
    for si, t, site, tgt in calls:
        if tgt[0] != "pos" or site is None:
            continue
        callee = instr_at.get((tgt[1], tgt[2]))
        if callee is None or callee.fn is None:
            continue
        sites_by_fn.setdefault(callee.fn, set()).add(("pos", si, site))
    for (si, pos), t in instr_at.items():
        if t.kind != "ret":
            continue
        sites = sites_by_fn.get(t.fn) if t.fn is not None else None
        if sites:
            for s in sites:
                edges.add((si, pos, "return", False, True, s))
        else:
            edges.add((si, pos, "return", False, True, ("anon",)))
    expected_edges.edge_label = edge_label
    expected_edges.calls = calls
    return edges, ft_dontcare, instr_at


ETYPE = {"ft": gtirb.Edge.Type.Fallthrough, "branch": gtirb.Edge.Type.Branch,
         "call": gtirb.Edge.Type.Call, "return": gtirb.Edge.Type.Return,
         "syscall": gtirb.Edge.Type.Syscall}


def build_cfg(case, lst, bu):
    """adds the input CFG: edges of each block's last instruction"""
    m, ir = bu.module, bu.ir
    labels = lst.label_positions()
    edges, _, instr_at = expected_edges(lst, labels)
    # map positions to blocks
    block_at = {}
    last_instr_of = {}
    for si, ii, t in lst.all_tokens():
        if t.t == "B" and lst.block_info[t.bid]["code"]:
            items = lst.block_items(t.bid)
            if items:
                block_at[(si, items[0].pos)] = bu.blocks[t.bid]
                last_instr_of[(si, items[-1].pos)] = bu.blocks[t.bid]
    # zero-sized code blocks (as earlier rewrites leave them): a chain of them
    # in front of a position takes the fallthrough / return edges that arrive
    # there from the physically preceding code, each falls through to the
    # next, and an edge by label goes to the block carrying the label
    empty_chain = {}      # (si, pos) -> [blocks] in listing order
    empty_of_label = {}
    follows_code = {}     # first empty block of a chain -> True when code
                          # stands right in front of it in its interval
    for si, ivs in enumerate(lst.secs):
        for toks in ivs:
            prev_code = False
            for k, t in enumerate(toks):
                if t.t == "B" and lst.block_info[t.bid]["code"] and \
                        not lst.block_info[t.bid]["blk"]["items"]:
                    blk = bu.blocks[t.bid]
                    for nme in lst.block_info[t.bid]["blk"]["labels"] + \
                            lst.block_info[t.bid]["blk"]["elabels"]:
                        empty_of_label[nme] = blk
                    # position: that of the next byte-carrying token, or the
                    # interval's end
                    nxt = next((x for x in toks[k + 1:] if x.t in "ID"),
                               None)
                    key = (si, nxt.pos if nxt is not None else None,
                           id(toks))
                    chain = empty_chain.setdefault(key, [])
                    if not chain:
                        follows_code[id(blk)] = prev_code
                    chain.append(blk)
                    if nxt is not None and nxt.t == "I":
                        chain_next = block_at.get((si, nxt.pos))
                    else:
                        chain_next = None
                    empty_chain[key + ("next",)] = chain_next
                elif t.t in "ID":
                    prev_code = t.t == "I" and not t.uncovered
    first_empty_at = {}
    for key, chain in empty_chain.items():
        if len(key) == 4:
            continue
        nxt_blk = empty_chain[key + ("next",)]
        for a, b in zip(chain, chain[1:] + [nxt_blk]):
            if b is not None:
                ir.cfg.add(gtirb.Edge(source=a, target=b, label=gtirb.Edge.
                                      Label(type=gtirb.Edge.Type.Fallthrough)))
        if key[1] is not None and follows_code[id(chain[0])]:
            first_empty_at[(key[0], key[1])] = chain[0]
    edge_label = expected_edges.edge_label
    if case.get("imprecise_returns"):
        # (C11 only) an input whose return edges are not uniform, as real
        # disassemblies are: in every function with two or more returns the
        # first return is only known to return "somewhere"
        rets = {}
        for (si, pos), t in sorted(instr_at.items()):
            if t.kind == "ret" and t.fn is not None:
                rets.setdefault(t.fn, []).append((si, pos))
        vague = {v[0] for v in rets.values() if len(v) >= 2}
        edges = {e for e in edges
                 if not (e[2] == "return" and (e[0], e[1]) in vague)} | {
            (si, pos, "return", False, True, ("anon",))
            for (si, pos) in vague}
    anon = {}
    for (si, pos, et, cond, direct, tgt) in sorted(edges, key=repr):
        src = last_instr_of.get((si, pos))
        if src is None:
            # fallthrough inside a block is implicit; anything else would be
            # a buried terminator, which the generator never produces
            assert et == "ft", (si, pos, et)
            continue
        if tgt[0] == "pos":
            dst = block_at.get((tgt[1], tgt[2]))
            if et in ("ft", "return") and \
                    (tgt[1], tgt[2]) in first_empty_at:
                dst = first_empty_at[(tgt[1], tgt[2])]
            elif edge_label.get((si, pos, et)) in empty_of_label:
                dst = empty_of_label[edge_label[(si, pos, et)]]
            if dst is None:
                # label in front of data or at section end: the generator
                # does not produce such targets
                raise AssertionError(f"edge to non-code position {tgt}")
        elif tgt[0] == "extern":
            dst = bu.extern_proxies[tgt[1]]
        elif case.get("shared_return_proxy") and et == "return" and \
                "ret" in anon:
            # (C05 only) one proxy stands for every unknown return target,
            # as disassemblers emit it
            dst = anon["ret"]
        else:
            dst = gtirb.ProxyBlock()
            m.proxies.add(dst)
            bu.anon_proxies.add(dst)
            if et == "return":
                anon.setdefault("ret", dst)
        if et == "ft":
            label = gtirb.Edge.Label(type=ETYPE[et])
        elif et == "return":
            label = gtirb.Edge.Label(type=ETYPE[et])
        else:
            label = gtirb.Edge.Label(type=ETYPE[et], conditional=cond,
                                     direct=direct)
        ir.cfg.add(gtirb.Edge(source=src, target=dst, label=label))
