"""
Runner: tiers, seeds, subprocess fan-out, watchdogs, evidence writer,
known-finding matching, replay files.

    python -m vt.runner Cxx [--tier quick|thorough] [--seed N]
    python -m vt.runner Cxx --replay <file>
    python -m vt.runner Cxx --worker <shard.json> <out.json>     (internal)

Exit codes: 0 held on everything explored, 1 VIOLATION, 2 INCONCLUSIVE.
"""
import argparse
import importlib
import json
import os
import random
import signal
import subprocess
import sys
import time
import traceback

from . import common

NWORKERS = int(os.environ.get("VERIF_WORKERS", "16"))
CASE_TIMEOUT = int(os.environ.get("VERIF_CASE_TIMEOUT", "60"))


def load_check(prop):
    return importlib.import_module(f"vt.checks.{prop.lower()}")


class CaseTimeout(Exception):
    pass


def _alarm(signum, frame):
    raise CaseTimeout()


def classify_exception(exc):
    """An uncaught exception out of run_case: SUT-originated or harness?"""
    tb = traceback.extract_tb(exc.__traceback__)
    frames = [f for f in tb]
    repo_frames = [f for f in frames if f.filename.startswith(common.REPO_SRC)]
    if repo_frames:
        f = repo_frames[-1]
        where = f"{os.path.basename(f.filename)}:{f.name}"
        return "sut", f"unexpected-exception:{type(exc).__name__}@{where}"
    return "harness", f"harness-error:{type(exc).__name__}"


def run_one(mod, case):
    """Runs one case with a watchdog; returns a result dict."""
    signal.signal(signal.SIGALRM, _alarm)
    signal.alarm(CASE_TIMEOUT)
    try:
        res = mod.run_case(case)
    except CaseTimeout:
        res = {"sig": None, "violations": [], "inconclusive": "case-timeout"}
    except Exception as exc:  # noqa
        kind, key = classify_exception(exc)
        msg = "".join(
            traceback.format_exception(type(exc), exc, exc.__traceback__)
        )[-3000:]
        if kind == "sut":
            res = {"sig": None, "violations": [{"key": key, "msg": msg}]}
        else:
            res = {"sig": None, "violations": [], "inconclusive": key,
                   "trace": msg}
    finally:
        signal.alarm(0)
    res.setdefault("violations", [])
    res.setdefault("counters", {})
    return res


def worker_main(prop, shard_path, out_path):
    common.ensure_deps()
    with open(shard_path) as f:
        shard = json.load(f)
    mod = load_check(prop)
    tier, seed = shard["tier"], shard["seed"]
    wid, nw = shard["wid"], shard["nworkers"]
    deadline = time.time() + shard["seconds"]
    if hasattr(mod, "setup_worker"):
        mod.setup_worker(tier)
    out = {
        "evaluations": 0,
        "sigs": {},
        "violations": [],
        "inconclusive": [],
        "counters": {},
        "samples": [],
        "exhaustive_total": 0,
        "exhaustive_done": 0,
        "exhaustive_complete": True,
        "random_done": 0,
        "key_counts": {},
    }

    def account(case, res, origin):
        out["evaluations"] += 1
        sig = res.get("sig")
        if sig is not None:
            out["sigs"][sig] = out["sigs"].get(sig, 0) + 1
        for k, v in res.get("counters", {}).items():
            out["counters"][k] = out["counters"].get(k, 0) + v
        for v in res["violations"]:
            # witnesses are capped PER KEY so that a flood of one (known)
            # key can never hide another key
            n = out["key_counts"].get(v["key"], 0)
            out["key_counts"][v["key"]] = n + 1
            if n < 8:
                out["violations"].append(
                    {"key": v["key"], "msg": v.get("msg", "")[:4000],
                     "case": case, "origin": origin}
                )
        if res.get("inconclusive"):
            if len(out["inconclusive"]) < 20:
                out["inconclusive"].append(
                    {"reason": res["inconclusive"], "case": case,
                     "trace": res.get("trace", "")}
                )
            out["counters"]["inconclusive_cases"] = (
                out["counters"].get("inconclusive_cases", 0) + 1
            )
        if len(out["samples"]) < 2 and sig is not None:
            out["samples"].append(case)

    # exhaustive part first (deterministic enumeration, sharded by index)
    if hasattr(mod, "exhaustive"):
        for idx, case in enumerate(mod.exhaustive(tier)):
            out["exhaustive_total"] += 1
            if idx % nw != wid:
                continue
            if time.time() > deadline:
                out["exhaustive_complete"] = False
                continue
            res = run_one(mod, case)
            account(case, res, f"exhaustive:{idx}")
            out["exhaustive_done"] += 1

    ncases = shard["cases"]
    i = wid
    # the time budget is wall clock; on a loaded machine it must not shrink
    # the workload to next to nothing: a third of this worker's share of the
    # cases is run whatever the clock says (the watchdog of the whole run
    # still bounds it)
    floor = (ncases // nw) // 3 if tier == "quick" else 0
    while i < ncases and (time.time() < deadline or
                          out["random_done"] < floor):
        rng = random.Random(f"{prop}:{seed}:{i}")
        try:
            case = mod.gen_case(rng, tier, i)
        except Exception as exc:  # noqa: a generator bug is a harness error
            account({"generator_index": i},
                    {"sig": None, "violations": [], "counters": {},
                     "inconclusive": "harness-error:generator:"
                     f"{type(exc).__name__}:{exc}"[:200]},
                    f"random:{seed}:{i}")
            case = None
        if case is not None:
            res = run_one(mod, case)
            account(case, res, f"random:{seed}:{i}")
            out["random_done"] += 1
        i += nw
    if hasattr(mod, "finish_worker"):
        for k, v in (mod.finish_worker() or {}).items():
            out["counters"][k] = out["counters"].get(k, 0) + v
    common.jdump(out, out_path)


def load_known(prop):
    if not os.path.exists(common.KNOWN):
        return [], []
    with open(common.KNOWN) as f:
        data = json.load(f)
    def applies(e):
        return prop == e.get("property") or prop in e.get("properties", [])
    known = [e for e in data.get("findings", []) if applies(e)]
    fixed = [e for e in data.get("fixed", []) if applies(e)]
    return known, fixed


def trim(obj, limit=6000):
    s = json.dumps(obj, default=str)
    if len(s) <= limit:
        return obj
    return {"truncated": s[:limit]}


def main(argv=None):
    ap = argparse.ArgumentParser()
    ap.add_argument("prop")
    ap.add_argument("--tier", default=os.environ.get("VERIF_TIER", "quick"))
    ap.add_argument(
        "--seed", type=int, default=int(os.environ.get("VERIF_SEED", "0"))
    )
    ap.add_argument("--replay")
    ap.add_argument("--worker", nargs=2)
    ap.add_argument("--cases", type=int)
    ap.add_argument("--seconds", type=float)
    args = ap.parse_args(argv)
    prop = args.prop.upper()

    if args.worker:
        worker_main(prop, *args.worker)
        return 0

    common.ensure_deps()
    mod = load_check(prop)

    if args.replay:
        with open(args.replay) as f:
            rep = json.load(f)
        if hasattr(mod, "setup_worker"):
            mod.setup_worker(rep.get("tier", "quick"))
        res = run_one(mod, rep["case"])
        print(json.dumps({"violations": res["violations"],
                          "inconclusive": res.get("inconclusive")},
                         indent=1)[:6000])
        known, _ = load_known(prop)
        kk = {e["key"] for e in known}
        unknown = [v for v in res["violations"] if v["key"] not in kk]
        for v in res["violations"]:
            if v["key"] in kk:
                print(f"KNOWN-FINDING: property={prop} key={v['key']}")
        if unknown:
            print(f"VIOLATION property={prop} replay={args.replay}")
            return 1
        if res["violations"]:
            return 0
        print(f"replay: no violation property={prop}")
        return 0

    tier = args.tier
    cases, seconds = mod.BUDGET[tier]
    if args.cases:
        cases = args.cases
    if args.seconds:
        seconds = args.seconds
    t0 = time.time()
    os.makedirs(common.WORK, exist_ok=True)
    os.makedirs(common.EVIDENCE, exist_ok=True)
    procs = []
    env = dict(os.environ)
    env[common.GUARD] = "1"
    env.setdefault("PYTHONHASHSEED", "0")
    nw = NWORKERS if cases >= NWORKERS else max(1, cases)
    nw = getattr(mod, "WORKERS", nw)
    for wid in range(nw):
        shard = {"tier": tier, "seed": args.seed, "wid": wid,
                 "nworkers": nw, "cases": cases, "seconds": seconds}
        sp = os.path.join(common.WORK, f"{prop}.{os.getpid()}.{wid}.shard")
        op = os.path.join(common.WORK, f"{prop}.{os.getpid()}.{wid}.out")
        with open(sp, "w") as f:
            json.dump(shard, f)
        p = subprocess.Popen(
            [common.PY, "-m", "vt.runner", prop, "--worker", sp, op],
            cwd=common.VERIF, env=env,
            stdout=subprocess.DEVNULL, stderr=subprocess.PIPE,
        )
        procs.append((p, sp, op, wid))

    watchdog = seconds * 3 + 120
    merged = {
        "key_counts": {},
        "evaluations": 0, "sigs": {}, "violations": [], "inconclusive": [],
        "counters": {}, "samples": [], "exhaustive_total": 0,
        "exhaustive_done": 0, "exhaustive_complete": True, "random_done": 0,
    }
    dead_workers = []
    for p, sp, op, wid in procs:
        remaining = max(1, watchdog - (time.time() - t0))
        try:
            _, err = p.communicate(timeout=remaining)
        except subprocess.TimeoutExpired:
            p.kill()
            _, err = p.communicate()
            dead_workers.append((wid, "watchdog"))
        if os.path.exists(op):
            with open(op) as f:
                o = json.load(f)
            merged["evaluations"] += o["evaluations"]
            for k, v in o["sigs"].items():
                merged["sigs"][k] = merged["sigs"].get(k, 0) + v
            merged["violations"] += o["violations"]
            for k, v in o.get("key_counts", {}).items():
                merged["key_counts"][k] = merged["key_counts"].get(k, 0) + v
            merged["inconclusive"] += o["inconclusive"]
            for k, v in o["counters"].items():
                merged["counters"][k] = merged["counters"].get(k, 0) + v
            merged["samples"] += o["samples"]
            merged["exhaustive_total"] = max(
                merged["exhaustive_total"], o["exhaustive_total"])
            merged["exhaustive_done"] += o["exhaustive_done"]
            merged["exhaustive_complete"] &= o["exhaustive_complete"]
            merged["random_done"] += o["random_done"]
        elif (wid, "watchdog") not in dead_workers:
            dead_workers.append(
                (wid, "died: " + (err or b"").decode(errors="replace")[-1500:])
            )
        for path in (sp, op):
            try:
                os.remove(path)
            except OSError:
                pass

    wall = time.time() - t0
    known, fixed = load_known(prop)
    known_keys = {e["key"]: e for e in known}

    # group violations by key
    by_key = {}
    for v in merged["violations"]:
        by_key.setdefault(v["key"], []).append(v)

    unexplained = {k: vs for k, vs in by_key.items() if k not in known_keys}
    explained = {k: vs for k, vs in by_key.items() if k in known_keys}

    rc = 0
    lines = []
    for k in sorted(explained):
        e = known_keys[k]
        lines.append(
            f"KNOWN-FINDING: property={prop} {e['mechanism']} "
            f"(key={k}, seen {merged['key_counts'].get(k, 0)}x)"
        )
    replay_paths = []
    if unexplained:
        rc = 1
        os.makedirs(os.path.join(common.REPLAYS, prop), exist_ok=True)
        for k in sorted(unexplained):
            vs = unexplained[k]
            # smallest witness first
            v = min(vs, key=lambda v: len(json.dumps(v["case"], default=str)))
            h = common.stable_hash([k, v["case"]])
            path = os.path.join(common.REPLAYS, prop, f"{h}.json")
            common.jdump({"property": prop, "key": k, "msg": v["msg"],
                          "case": v["case"], "origin": v["origin"],
                          "tier": tier, "seed": args.seed,
                          "count": merged["key_counts"].get(k, len(vs))},
                         path)
            replay_paths.append(path)
            lines.append(f"VIOLATION property={prop} replay={path}")
            lines.append(f"  key={k} count="
                         f"{merged['key_counts'].get(k, len(vs))} :: "
                         + v["msg"].strip().splitlines()[-1][:300]
                         if v["msg"].strip() else f"  key={k}")

    distinct = len(merged["sigs"])
    required = getattr(mod, "REQUIRED_COUNTERS", [])
    inconclusive_reasons = []
    for c in required:
        if merged["counters"].get(c, 0) <= 0:
            inconclusive_reasons.append(f"monitor-never-reached:{c}")
    if dead_workers:
        inconclusive_reasons.append(
            "workers-lost:" + ";".join(f"{w}:{r[-300:]}" for w, r in dead_workers)
        )
    if merged["evaluations"] == 0:
        inconclusive_reasons.append("no-cases-ran")
    if distinct < 2:
        inconclusive_reasons.append("fewer-than-2-distinct-nontrivial-cases")
    harness_inc = [i for i in merged["inconclusive"]
                   if i["reason"].startswith("harness-error")]
    if harness_inc:
        inconclusive_reasons.append(
            f"harness-errors:{len(harness_inc)}:{harness_inc[0]['reason']}")
    n_inc = merged["counters"].get("inconclusive_cases", 0)
    if merged["evaluations"] and n_inc > 0.2 * merged["evaluations"]:
        inconclusive_reasons.append(f"too-many-inconclusive-cases:{n_inc}")

    if rc == 0 and inconclusive_reasons:
        rc = 2
        lines.append(
            f"INCONCLUSIVE property={prop} reason="
            + ",".join(inconclusive_reasons)[:1500]
        )
        if harness_inc:
            lines.append(harness_inc[0].get("trace", "")[-2000:])

    exhaustive = bool(merged["exhaustive_total"]) and merged[
        "exhaustive_complete"] and merged["exhaustive_done"] == merged[
        "exhaustive_total"]
    coverage = {
        "evaluations": merged["evaluations"],
        "distinct_nontrivial": distinct,
        "rule": mod.RULE,
        "samples": [trim(s) for s in merged["samples"][:3]] or
                   [{"note": "no nontrivial case"}],
        "exhaustive": exhaustive and merged["random_done"] == 0,
        "exhaustive_subspace_cases": merged["exhaustive_done"],
        "exhaustive_subspace_total": merged["exhaustive_total"],
        "exhaustive_subspace_complete": exhaustive,
        "random_cases": merged["random_done"],
        "monitor_counters": dict(sorted(merged["counters"].items())),
        "top_signatures": dict(sorted(merged["sigs"].items(),
                                      key=lambda kv: -kv[1])[:25]),
        "known_findings_seen": {k: merged["key_counts"].get(k, len(v))
                                for k, v in explained.items()},
        "unexplained_violation_keys": {
            k: merged["key_counts"].get(k, len(v))
            for k, v in unexplained.items()},
        "inconclusive_reasons": inconclusive_reasons,
        "verdict": {0: "held-on-observed", 1: "violated",
                    2: "inconclusive"}[rc],
        "workers": nw,
    }
    evidence = {
        "property_id": prop,
        "tier": tier,
        "seed": args.seed,
        "level": mod.LEVEL,
        "coverage": coverage,
        "assumptions": list(getattr(mod, "ASSUMPTIONS", [])),
        "wall_s": round(wall, 2),
        "violations": sum(merged["key_counts"].get(k, len(v))
                          for k, v in unexplained.items()),
    }
    common.jdump(evidence, os.path.join(common.EVIDENCE, f"{prop}.json"))

    for ln in lines:
        print(ln)
    print(
        f"{prop} tier={tier} seed={args.seed} evaluations="
        f"{merged['evaluations']} distinct_nontrivial={distinct} "
        f"known={sum(merged['key_counts'].get(k, len(v)) for k, v in explained.items())} "
        f"violations={evidence['violations']} wall={wall:.1f}s "
        f"verdict={coverage['verdict']}"
    )
    return rc


if __name__ == "__main__":
    sys.exit(main())
