"""
Fixed per-ISA instruction vocabulary with hand-written encodings.  The listing
model needs neither the library's assembler nor its decoder: every original
instruction comes with its bytes, and the bytes LLVM-MC produces for the same
text in a patch are predicted from the same table (tools/selftest_vocab.py
checks the prediction against the real assembler and capstone).

entry: key -> dict(
   b     = bytes (hex) with zeroed symbolic field
   kind  = ord|jmp|jcc|call|ret|ijmp|icall|halt
   sym   = (offset, size) of the symbolic operand or None
   asm   = text template ({t} target/symbol, {imm} immediate)
   imm   = (offset, size) of an immediate taken from the item (marker) or None
   patch = may be used in a patch (False: encoding MC would not choose)
)
"""

X64 = {
    "nop": dict(b="90", kind="ord", asm="nop"),
    "push_rax": dict(b="50", kind="ord", asm="pushq %rax"),
    "pop_rax": dict(b="58", kind="ord", asm="popq %rax"),
    "push_rbx": dict(b="53", kind="ord", asm="pushq %rbx"),
    "pop_rbx": dict(b="5b", kind="ord", asm="popq %rbx"),
    "mov_rr": dict(b="4889c3", kind="ord", asm="movq %rax, %rbx"),
    "xor": dict(b="31c0", kind="ord", asm="xorl %eax, %eax"),
    "add": dict(b="4883c001", kind="ord", asm="addq $1, %rax"),
    "lea_sym": dict(b="488d0500000000", kind="ord", sym=(3, 4),
                    asm="leaq {t}(%rip), %rax"),
    "mov_sym": dict(b="488b0500000000", kind="ord", sym=(3, 4),
                    asm="movq {t}(%rip), %rax"),
    "mark": dict(b="b800000000", kind="ord", imm=(1, 4),
                 asm="movl ${imm}, %eax"),
    "jmp": dict(b="eb00", kind="jmp", sym=(1, 1), asm="jmp {t}"),
    "jmp32": dict(b="e900000000", kind="jmp", sym=(1, 4), asm="jmp {t}",
                  patch=False),
    "jne": dict(b="7500", kind="jcc", sym=(1, 1), asm="jne {t}"),
    "je32": dict(b="0f8400000000", kind="jcc", sym=(2, 4), asm="je {t}",
                 patch=False),
    "call": dict(b="e800000000", kind="call", sym=(1, 4), asm="callq {t}"),
    "ret": dict(b="c3", kind="ret", asm="retq"),
    "ijmp": dict(b="ffe0", kind="ijmp", asm="jmpq *%rax"),
    "icall": dict(b="ffd0", kind="icall", asm="callq *%rax"),
    "ud2": dict(b="0f0b", kind="halt", asm="ud2"),
    "hlt": dict(b="f4", kind="halt", asm="hlt"),
    # explicit ELF relocation variants (ELF targets only); the attribute set
    # is the variant's name spelled out
    "v_gotpcrel": dict(b="488b0500000000", kind="ord", sym=(3, 4),
                       asm="movq {t}@GOTPCREL(%rip), %rax", patch=False,
                       attrs=("GOT", "PCREL"), elf=True),
    "v_gottpoff": dict(b="488b0500000000", kind="ord", sym=(3, 4),
                       asm="movq {t}@GOTTPOFF(%rip), %rax", patch=False,
                       attrs=("GOT", "TPOFF"), elf=True),
    "v_gotntpoff": dict(b="488b0500000000", kind="ord", sym=(3, 4),
                        asm="movq {t}@GOTNTPOFF(%rip), %rax", patch=False,
                        attrs=("GOT", "NTPOFF"), elf=True),
    "v_tpoff": dict(b="488b042500000000", kind="ord", sym=(4, 4),
                    asm="movq {t}@TPOFF, %rax", patch=False,
                    attrs=("TPOFF",), elf=True),
    "v_ntpoff": dict(b="488b042500000000", kind="ord", sym=(4, 4),
                     asm="movq {t}@NTPOFF, %rax", patch=False,
                     attrs=("NTPOFF",), elf=True),
    "v_dtpoff": dict(b="488b8800000000", kind="ord", sym=(3, 4),
                     asm="movq {t}@DTPOFF(%rax), %rcx", patch=False,
                     attrs=("DTPOFF",), elf=True),
    "v_tlsgd": dict(b="488d3d00000000", kind="ord", sym=(3, 4),
                    asm="leaq {t}@TLSGD(%rip), %rdi", patch=False,
                    attrs=("TLSGD",), elf=True),
    "v_got": dict(b="488b0500000000", kind="ord", sym=(3, 4),
                  asm="movq {t}@GOT(%rip), %rax", patch=False,
                  attrs=("GOT",), elf=True),
    # system call: a Syscall edge to an unknown target plus a fallthrough
    "syscall": dict(b="0f05", kind="syscall", asm="syscall", patch=False),
    # symbolic memory operand FOLLOWED by an immediate: the fixup is not the
    # last field of the encoding
    "cmp_sym": dict(b="833d0000000005", kind="ord", sym=(2, 4),
                    asm="cmpl $5, {t}(%rip)"),
    "movi_sym": dict(b="c7050000000007000000", kind="ord", sym=(2, 4),
                     asm="movl $7, {t}(%rip)"),
    # through memory named by a symbol (GOT-style); original code only
    "icall_sym": dict(b="ff1500000000", kind="icall", sym=(2, 4),
                      asm="callq *{t}(%rip)", patch=False),
    "ijmp_sym": dict(b="ff2500000000", kind="ijmp", sym=(2, 4),
                     asm="jmpq *{t}(%rip)", patch=False),
}

IA32 = {
    "nop": dict(b="90", kind="ord", asm="nop"),
    "push_rax": dict(b="50", kind="ord", asm="pushl %eax"),
    "pop_rax": dict(b="58", kind="ord", asm="popl %eax"),
    "push_rbx": dict(b="53", kind="ord", asm="pushl %ebx"),
    "pop_rbx": dict(b="5b", kind="ord", asm="popl %ebx"),
    "mov_rr": dict(b="89c3", kind="ord", asm="movl %eax, %ebx"),
    "xor": dict(b="31c0", kind="ord", asm="xorl %eax, %eax"),
    "add": dict(b="83c001", kind="ord", asm="addl $1, %eax"),
    "lea_sym": dict(b="8d0500000000", kind="ord", sym=(2, 4),
                    asm="leal {t}, %eax"),
    "mov_sym": dict(b="a100000000", kind="ord", sym=(1, 4),
                    asm="movl {t}, %eax"),
    "mark": dict(b="b800000000", kind="ord", imm=(1, 4),
                 asm="movl ${imm}, %eax"),
    "jmp": dict(b="eb00", kind="jmp", sym=(1, 1), asm="jmp {t}"),
    "jmp32": dict(b="e900000000", kind="jmp", sym=(1, 4), asm="jmp {t}",
                  patch=False),
    "jne": dict(b="7500", kind="jcc", sym=(1, 1), asm="jne {t}"),
    "je32": dict(b="0f8400000000", kind="jcc", sym=(2, 4), asm="je {t}",
                 patch=False),
    "call": dict(b="e800000000", kind="call", sym=(1, 4), asm="calll {t}"),
    "ret": dict(b="c3", kind="ret", asm="retl"),
    "ijmp": dict(b="ffe0", kind="ijmp", asm="jmpl *%eax"),
    "icall": dict(b="ffd0", kind="icall", asm="calll *%eax"),
    "ud2": dict(b="0f0b", kind="halt", asm="ud2"),
    "hlt": dict(b="f4", kind="halt", asm="hlt"),
    "cmp_sym": dict(b="833d0000000005", kind="ord", sym=(2, 4),
                    asm="cmpl $5, {t}"),
    "movi_sym": dict(b="c7050000000007000000", kind="ord", sym=(2, 4),
                     asm="movl $7, {t}"),
    "icall_sym": dict(b="ff1500000000", kind="icall", sym=(2, 4),
                      asm="calll *{t}", patch=False),
    "ijmp_sym": dict(b="ff2500000000", kind="ijmp", sym=(2, 4),
                     asm="jmpl *{t}", patch=False),
}


def _w(x):
    return x.to_bytes(4, "little").hex()


ARM64 = {
    "nop": dict(b=_w(0xD503201F), kind="ord", asm="nop"),
    "push_rax": dict(b=_w(0xF81F0FE0), kind="ord",
                     asm="str x0, [sp, #-16]!"),
    "pop_rax": dict(b=_w(0xF84107E0), kind="ord", asm="ldr x0, [sp], #16"),
    "push_rbx": dict(b=_w(0xF81F0FE1), kind="ord",
                     asm="str x1, [sp, #-16]!"),
    "pop_rbx": dict(b=_w(0xF84107E1), kind="ord", asm="ldr x1, [sp], #16"),
    "mov_rr": dict(b=_w(0xAA0003E1), kind="ord", asm="mov x1, x0"),
    "xor": dict(b=_w(0xCA000000), kind="ord", asm="eor x0, x0, x0"),
    "add": dict(b=_w(0x91000400), kind="ord", asm="add x0, x0, #1"),
    "lea_sym": dict(b=_w(0x90000000), kind="ord", sym=(0, 4),
                    asm="adrp x0, {t}"),
    "mov_sym": dict(b=_w(0x10000000), kind="ord", sym=(0, 4),
                    asm="adr x0, {t}"),
    # pc-relative literal loads
    "ldr_lit": dict(b=_w(0x58000000), kind="ord", sym=(0, 2),
                    asm="ldr x0, {t}"),
    "ldrsw_lit": dict(b=_w(0x98000001), kind="ord", sym=(0, 2),
                      asm="ldrsw x1, {t}"),
    # relocation modifier on the operand (the expression carries LO12)
    "addlo_sym": dict(b=_w(0x91000000), kind="ord", sym=(0, 1),
                      asm="add x0, x0, :lo12:{t}", attrs=("LO12",)),
    "ldrlo_sym": dict(b=_w(0xF9400000), kind="ord", sym=(0, 1),
                      asm="ldr x0, [x0, :lo12:{t}]", attrs=("LO12",)),
    "mark": dict(b=_w(0x52800009), kind="ord", imm16=True,
                 asm="mov w9, #{imm}"),
    "jmp": dict(b=_w(0x14000000), kind="jmp", sym=(0, 3), asm="b {t}"),
    "jne": dict(b=_w(0x54000001), kind="jcc", sym=(0, 2), asm="b.ne {t}"),
    "call": dict(b=_w(0x94000000), kind="call", sym=(0, 3), asm="bl {t}"),
    "ret": dict(b=_w(0xD65F03C0), kind="ret", asm="ret"),
    "ijmp": dict(b=_w(0xD61F0000), kind="ijmp", asm="br x0"),
    "icall": dict(b=_w(0xD63F0000), kind="icall", asm="blr x0"),
    "ud2": dict(b=_w(0xD4200000), kind="halt", asm="brk #0"),
    "syscall": dict(b=_w(0xD4000001), kind="syscall", asm="svc #0",
                    patch=False),
}

INTEL = {'nop': 'nop', 'push_rax': 'push rax', 'pop_rax': 'pop rax', 'push_rbx': 'push rbx', 'pop_rbx': 'pop rbx', 'mov_rr': 'mov rbx, rax', 'xor': 'xor eax, eax', 'add': 'add rax, 1', 'lea_sym': 'lea rax, [rip + {t}]', 'mov_sym': 'mov rax, qword ptr [rip + {t}]', 'mark': 'mov eax, {imm}', 'jmp': 'jmp {t}', 'jne': 'jne {t}', 'call': 'call {t}', 'ret': 'ret', 'ijmp': 'jmp rax', 'icall': 'call rax', 'ud2': 'ud2', 'hlt': 'hlt', 'cmp_sym': 'cmp dword ptr [rip + {t}], 5', 'movi_sym': 'mov dword ptr [rip + {t}], 7'}
for _k, _t in INTEL.items():
    X64[_k]["intel"] = _t


def _wb(x):
    return x.to_bytes(4, "big").hex()


# MIPS32 big endian; in the default reorder mode the assembler fills the
# branch delay slot with a nop, which is part of the encoding here
MIPS32 = {
    "nop": dict(b=_wb(0x00000000), kind="ord", asm="nop"),
    "add": dict(b=_wb(0x25080001), kind="ord", asm="addiu $t0, $t0, 1"),
    "mov_rr": dict(b=_wb(0x01004825), kind="ord", asm="move $t1, $t0"),
    "xor": dict(b=_wb(0x01084026), kind="ord", asm="xor $t0, $t0, $t0"),
    "lui_hi": dict(b=_wb(0x3C080000), kind="ord", sym=(0, 2),
                   asm="lui $t0, %hi({t})", attrs=("HI",)),
    "addiu_lo": dict(b=_wb(0x25080000), kind="ord", sym=(0, 2),
                     asm="addiu $t0, $t0, %lo({t})", attrs=("LO",)),
    "mark": dict(b=_wb(0x24090000), kind="ord", imm16lo=True,
                 asm="addiu $t1, $zero, {imm}"),
    # (names shared with the other tables; the instructions differ)
    "push_rax": dict(b=_wb(0x27BDFFF8), kind="ord",
                     asm="addiu $sp, $sp, -8"),
    "pop_rax": dict(b=_wb(0x27BD0008), kind="ord", asm="addiu $sp, $sp, 8"),
    "push_rbx": dict(b=_wb(0xAFA80000), kind="ord", asm="sw $t0, 0($sp)"),
    "pop_rbx": dict(b=_wb(0x8FA80000), kind="ord", asm="lw $t0, 0($sp)"),
    "lea_sym": dict(b=_wb(0x3C080000), kind="ord", sym=(0, 2),
                    asm="lui $t0, %hi({t})", attrs=("HI",)),
    "mov_sym": dict(b=_wb(0x8D080000), kind="ord", sym=(0, 2),
                    asm="lw $t0, %lo({t})($t0)", attrs=("LO",)),
    "jne": dict(b=_wb(0x15000000) + "00000000", kind="jcc", sym=(0, 2),
                asm="bne $t0, $zero, {t}"),
    # (LLVM-MC does not flag `jr $ra` as a return: the library's assembler
    # makes it an indirect branch, which C12 does not judge either way; the
    # key is for original code in rewrite scenarios only)
    "ret": dict(b=_wb(0x03E00008) + "00000000", kind="ret", asm="jr $ra",
                rw_only=True),
    "ud2": dict(b=_wb(0x0000000D), kind="halt", asm="break"),
    "syscall": dict(b=_wb(0x0000000C), kind="syscall", asm="syscall",
                    patch=False),
    "call": dict(b=_wb(0x0C000000) + "00000000", kind="call", sym=(0, 3),
                 asm="jal {t}"),
    # direct calls that carry a register operand (bgezal $zero / bltzal)
    "bal": dict(b=_wb(0x04110000) + "00000000", kind="call", sym=(0, 2),
                asm="bal {t}", patch=False),
    "bltzal": dict(b=_wb(0x05100000) + "00000000", kind="call", sym=(0, 2),
                   asm="bltzal $t0, {t}", patch=False),
    "jmp": dict(b=_wb(0x08000000) + "00000000", kind="jmp", sym=(0, 3),
                asm="j {t}"),
    "icall": dict(b=_wb(0x0320F809) + "00000000", kind="icall",
                  asm="jalr $t9"),
    "ijmp": dict(b=_wb(0x03200008) + "00000000", kind="ijmp",
                 asm="jr $t9"),
}

VOCAB = {"x64": X64, "ia32": IA32, "arm64": ARM64, "mips32": MIPS32}
for _v in VOCAB.values():
    for _e in _v.values():
        _e.setdefault("sym", None)
        _e.setdefault("imm", None)
        _e.setdefault("imm16", False)
        _e.setdefault("imm16lo", False)
        _e.setdefault("patch", True)
        _e.setdefault("attrs", ())
        _e["size"] = len(_e["b"]) // 2

NOP = {"x64": b"\x90", "ia32": b"\x90",
       "arm64": bytes.fromhex(_w(0xD503201F)), "mips32": bytes(4)}


def encode(isa, key, imm=None):
    e = VOCAB[isa][key]
    b = bytearray.fromhex(e["b"])
    if e["imm"] and imm is not None:
        off, size = e["imm"]
        b[off:off + size] = (imm & ((1 << (8 * size)) - 1)).to_bytes(
            size, "little")
    if e["imm16"] and imm is not None:
        w = int.from_bytes(b, "little") | ((imm & 0xFFFF) << 5)
        b = bytearray(w.to_bytes(4, "little"))
    if e["imm16lo"] and imm is not None:
        w = int.from_bytes(b, "big") | (imm & 0x7FFF)
        b = bytearray(w.to_bytes(4, "big"))
    return bytes(b)


def asm_text(isa, key, target=None, imm=None, intel=False):
    e = VOCAB[isa][key]
    return e["intel" if intel else "asm"].format(t=target, imm=imm)


def decode_imm(isa, key, data):
    e = VOCAB[isa][key]
    if e["imm"]:
        off, size = e["imm"]
        return int.from_bytes(data[off:off + size], "little")
    if e["imm16"]:
        return (int.from_bytes(data[:4], "little") >> 5) & 0xFFFF
    if e["imm16lo"]:
        return int.from_bytes(data[:4], "big") & 0x7FFF
    return None
