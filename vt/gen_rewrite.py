"""
Seeded generator for rewrite scenarios (modules + edit sets), shared by
C01-C09 and C11.  Produces JSON-serialisable case descriptions.
"""
import os

from . import vocab

ORD_KEYS = ["nop", "push_rax", "pop_rax", "push_rbx", "pop_rbx", "mov_rr",
            "xor", "add"]
SYM_KEYS = ["lea_sym", "mov_sym", "cmp_sym", "movi_sym"]
# in patches also pc-relative literal loads (ARM64), whose fixup expression
# is a plain "symbol + constant"
PATCH_SYM_KEYS = SYM_KEYS + ["ldr_lit", "ldrsw_lit"]
TERMS = ["none", "jmp", "jcc", "call", "ret", "ijmp", "icall", "halt",
         "syscall"]
TERM_W = [30, 12, 12, 14, 14, 5, 5, 8, 4]
MARK_BASE = 0x5A0000


def term_key(isa, term, rng, orig=True):
    if isa == "mips32":
        # (one encoding per kind; the transfer instructions carry their
        # delay-slot nop)
        return {"jmp": "jmp", "jcc": "jne", "halt": "ud2", "call": "call",
                "ret": "ret", "ijmp": "ijmp", "icall": "icall",
                "syscall": "syscall"}[term]
    if term == "jmp":
        return rng.choice(["jmp", "jmp32"]) if orig and isa != "arm64" \
            else "jmp"
    if term == "jcc":
        return rng.choice(["jne", "je32"]) if orig and isa != "arm64" \
            else "jne"
    if term == "halt":
        return rng.choice(["ud2", "hlt"]) if isa != "arm64" else "ud2"
    if term == "syscall" and isa == "ia32":
        return "icall"      # (no system-call instruction in the IA32 table)
    return {"call": "call", "ret": "ret", "ijmp": "ijmp",
            "icall": "icall", "syscall": "syscall"}[term]


class Gen:
    def __init__(self, rng, tier="quick", **knobs):
        self.rng = rng
        self.tier = tier
        self.knobs = knobs
        self.next_bid = 0

    def pick_isa(self):
        r = self.rng.random()
        if self.knobs.get("isa"):
            return self.knobs["isa"]
        if r < self.knobs.get("mips_p", 0):
            # big-endian MIPS32 (only for the checks that do not read the
            # CFG instruction by instruction: a transfer and its delay slot
            # are one item here)
            return "mips32", "elf"
        if r < 0.55:
            return "x64", "elf"
        if r < 0.70:
            return "x64", "pe"
        if r < 0.85:
            return "ia32", "pe"
        return "arm64", "elf"

    def module(self):
        rng = self.rng
        isa, fmt = self.pick_isa()
        case = {"isa": isa, "fmt": fmt,
                "pie": fmt == "elf" and rng.random() < 0.5,
                "secs": [], "externs": ["ext0", "ext1"], "funcs": [],
                "entry": None, "edits": []}
        case["bintype"] = rng.choice([["DYN"], ["DYN"], ["DYN", "PIE"],
                                      ["DYN", "SHARED"], ["PIE", "DYN"]])
        nblocks = rng.choice([1, 2, 2, 3, 3, 4, 4, 5, 6, 8, 10])
        if self.tier == "thorough" and rng.random() < 0.2:
            nblocks = rng.randrange(8, 15)
        if self.knobs.get("big_p") and rng.random() < self.knobs["big_p"]:
            # now and then a module of a size real ones have (dozens of
            # blocks and functions, offsets beyond one byte)
            nblocks = rng.randrange(30, 90)
        # --- text section blocks
        blocks = []
        code_blocks = []
        for _ in range(nblocks):
            if blocks and rng.random() < 0.15:
                blocks.append(self.data_block(in_text=True))
            b = {"id": self.bid(), "code": True, "labels": [],
                 "elabels": [], "items": [], "term": None}
            if rng.random() < 0.75:
                b["labels"].append(f"blk{b["id"]}")
            if rng.random() < 0.12:
                b["labels"].append(f"blk{b["id"]}x")
            if rng.random() < 0.22:
                b["elabels"].append(f"end{b["id"]}")
            blocks.append(b)
            code_blocks.append(b)
        if rng.random() < 0.15:
            blocks.append(self.data_block(in_text=True))
        # --- functions: consecutive runs of code blocks
        funcs = []
        if rng.random() < 0.85:
            i = 0
            while i < len(code_blocks):
                if rng.random() < 0.25:
                    i += 1       # function-less block
                    continue
                run = rng.choice([1, 1, 2, 2, 3, 4])
                members = code_blocks[i:i + run]
                fname = f"fn{len(funcs)}"
                members[0]["labels"].insert(0, fname)
                f = {"name": fname, "blocks": [b["id"] for b in members],
                     "entries": [members[0]["id"]]}
                if len(members) > 1 and rng.random() < 0.12:
                    f["entries"].append(members[-1]["id"])
                funcs.append(f)
                i += run
            # occasionally interleave: move one later function-less block
            # into an earlier function
            if funcs and rng.random() < 0.1:
                infn = {b for f in funcs for b in f["blocks"]}
                loose = [b for b in code_blocks if b["id"] not in infn]
                if loose:
                    rng.choice(funcs)["blocks"].append(
                        rng.choice(loose)["id"])
        if self.knobs.get("shared_blocks") and len(funcs) >= 2 and \
                rng.random() < 0.35:
            # a block that belongs to two functions (a shared tail); only
            # for checks that do not attribute code to functions
            a, b = rng.sample(funcs, 2)
            a["blocks"].append(rng.choice(b["blocks"]))
        case["funcs"] = funcs
        fn_of = {b: f["name"] for f in funcs for b in f["blocks"]}
        # --- data sections
        data_secs = []
        for name in rng.sample([".data", ".rodata"], rng.choice([0, 1, 1, 2])):
            dblocks = [self.data_block() for _ in range(rng.randrange(1, 4))]
            data_secs.append((name, dblocks))
        all_blocks = blocks + [b for _, bs in data_secs for b in bs]
        code_labels = [(b, l) for b in code_blocks for l in b["labels"]]
        any_labels = [l for b in all_blocks
                      for l in b["labels"] + b["elabels"]] + case["externs"]
        func_labels = [f["name"] for f in funcs]
        # --- instructions
        # (optionally one function that most calls go to: several call sites
        # per callee, whose return edges form sets the library iterates)
        popular = rng.choice(func_labels) if func_labels and \
            rng.random() < self.knobs.get("popular_callee_p", 0.1) else None
        empties = set()
        if rng.random() < self.knobs.get(
                "empty_blocks_p", float(os.environ.get("VT_EMPTY", "0.12"))):
            # (two zero-sized blocks at one address have no order in the IR,
            # and a function does not start with one)
            cand = [b for b in code_blocks[:-1]
                    if b is not blocks[0] and
                    not any(b["id"] in f["entries"] for f in funcs)]
            for b in rng.sample(cand, min(len(cand), rng.choice([1, 1, 2]))):
                k = blocks.index(b)
                if not any(0 <= j < len(blocks) and
                           blocks[j]["id"] in empties
                           for j in (k - 1, k + 1)):
                    empties.add(b["id"])
        for b in code_blocks:
            n = rng.choice([0, 1, 1, 2, 2, 3, 4])
            term = rng.choices(TERMS, TERM_W)[0]
            if term in ("jmp", "jcc") and not code_labels:
                term = "none"
            if b["id"] in empties:
                # a zero-sized code block, as an earlier rewrite leaves them
                # behind; it falls through to the next block
                n, term = 0, "none"
            elif n == 0 and term == "none":
                n = 1
            for _ in range(n):
                if rng.random() < 0.25 and any_labels:
                    it = {"k": rng.choice([k for k in SYM_KEYS
                                           if k in vocab.VOCAB[isa]]),
                          "t": rng.choice(any_labels)}
                    if rng.random() < 0.3:
                        it["add"] = rng.choice([1, 4, -8, 16])
                else:
                    it = {"k": rng.choice(ORD_KEYS)}
                b["items"].append(it)
            b["term"] = term
            if term == "none":
                pass
            elif term in ("jmp", "jcc"):
                same = [l for bb, l in code_labels
                        if fn_of.get(bb["id"]) == fn_of.get(b["id"])]
                pool = same if same and rng.random() < 0.7 else [
                    l for _, l in code_labels]
                b["items"].append({"k": term_key(isa, term, rng),
                                   "t": rng.choice(pool)})
            elif term == "call":
                r = rng.random()
                if popular is not None and r < 0.6:
                    t = popular
                elif func_labels and r < 0.7:
                    t = rng.choice(func_labels)
                elif code_labels and r < 0.85:
                    # (not the label of a zero-sized block: which function a
                    # call to one enters is the block's, not the code's)
                    cands = [x for x in code_labels
                             if x[0]["id"] not in empties]
                    t = rng.choice(cands)[1] if cands else \
                        rng.choice(case["externs"])
                else:
                    t = rng.choice(case["externs"])
                b["items"].append({"k": "call", "t": t})
            elif term in ("ijmp", "icall") and isa not in ("arm64", "mips32") \
                    and self.knobs.get("sym_indirect", True) and \
                    rng.random() < 0.5:
                b["items"].append({"k": term + "_sym",
                                   "t": rng.choice(case["externs"])})
            else:
                b["items"].append({"k": term_key(isa, term, rng)})
        if popular is not None:
            # the function most calls go to returns (its return edges are what
            # those call sites share)
            pf = next(f for f in funcs if f["name"] == popular)
            members = [b for b in code_blocks if b["id"] in pf["blocks"] and
                       b["id"] not in empties]
            if members and not any(
                    b["items"] and vocab.VOCAB[isa][b["items"][-1]["k"]][
                        "kind"] == "ret" for b in members):
                last = members[-1]
                if last["items"] and vocab.VOCAB[isa][
                        last["items"][-1]["k"]]["kind"] != "ord":
                    last["items"].pop()
                last["items"].append({"k": "ret"})
        if self.knobs.get("call_pair_p") and popular is not None and \
                rng.random() < self.knobs["call_pair_p"]:
            # two consecutive blocks that both end in a call to the popular
            # function, with code behind them: the second one is the return
            # site of the first call
            trip = [k for k in range(len(blocks) - 2)
                    if all(x["code"] and x["items"] and
                           x["id"] not in empties
                           for x in blocks[k:k + 3])]
            if trip:
                k = rng.choice(trip)
                for x in blocks[k:k + 2]:
                    if vocab.VOCAB[isa][x["items"][-1]["k"]]["kind"] != \
                            "ord":
                        x["items"].pop()
                    x["items"].append({"k": "call", "t": popular})
                case["call_pair"] = blocks[k + 1]["id"]
        for b in all_blocks:
            if not b["code"]:
                self.fill_data(b, any_labels)
        # annotations
        if rng.random() < 0.6:
            for b in all_blocks:
                for it in b["items"]:
                    if rng.random() < 0.2:
                        key = rng.choice(["comments", "comments@iv",
                                          "padding", "padding@iv"])
                        val = (f"c{b['id']}_{rng.randrange(1000)}"
                               if key.startswith("comments")
                               else rng.randrange(1, 9))
                        it.setdefault("ann", {})[key] = val
        # --- split text blocks over intervals
        case["secs"].append({"name": ".text", "exec": True,
                             "ivs": self.split_ivs(blocks)})
        for name, dblocks in data_secs:
            ivs = self.split_ivs(dblocks)
            if rng.random() < 0.15:
                # .bss-like: the last bytes of the section's last interval
                # are not initialised (zeros in the listing)
                n = rng.choice([1, 2, 4, 8])
                ivs[-1]["blocks"][-1]["items"].append(
                    {"k": "bytes", "hex": "00" * n})
                ivs[-1]["uninit"] = n
                if rng.random() < 0.5:
                    # ... and one or two whole blocks behind them (after the
                    # interval has been split for rewriting such a block owns
                    # a piece without any initialised byte)
                    for _ in range(rng.choice([1, 1, 2])):
                        ub = {"id": self.bid(), "code": False,
                              "labels": [], "elabels": [], "items": [
                                  {"k": "bytes",
                                   "hex": "00" * rng.choice([1, 2, 4])}
                                  for _ in range(rng.choice([2, 3]))]}
                        ub["labels"].append(f"bss{ub['id']}")
                        ivs[-1]["blocks"].append(ub)
                        all_blocks.append(ub)
                        ivs[-1]["uninit"] += sum(
                            len(it["hex"]) // 2 for it in ub["items"])
            case["secs"].append({"name": name, "exec": False, "ivs": ivs})
        if code_blocks and rng.random() < 0.5:
            case["entry"] = rng.choice(code_blocks)["id"]
        if fmt == "pe" and code_blocks and rng.random() < 0.5:
            case["safeseh"] = sorted({rng.choice(code_blocks)["id"]
                                      for _ in range(rng.choice([1, 1, 2, 3]))})
        for b in all_blocks:
            b.pop("term", None)
        self.case = case
        self.all_blocks = all_blocks
        self.code_blocks = code_blocks
        self.code_labels = [l for _, l in code_labels]
        self.callable_labels = [l for bb, l in code_labels
                                if bb["id"] not in empties]
        self.any_labels = any_labels
        self.func_labels = func_labels
        self.fn_of = fn_of
        return case

    def bid(self):
        self.next_bid += 1
        return self.next_bid - 1

    def data_block(self, in_text=False):
        b = {"id": self.bid(), "code": False, "labels": [], "elabels": [],
             "items": []}
        if self.rng.random() < 0.8:
            b["labels"].append(f"dat{b["id"]}")
        if self.rng.random() < 0.2:
            b["elabels"].append(f"dend{b["id"]}")
        return b

    def fill_data(self, b, labels):
        rng = self.rng
        for _ in range(rng.randrange(1, 4)):
            if rng.random() < 0.3 and labels:
                b["items"].append({"k": "word", "t": rng.choice(labels),
                                   "size": 8 if self.case_ptr8() else 4})
            else:
                b["items"].append(
                    {"k": "bytes",
                     "hex": rng.randbytes(rng.randrange(1, 7)).hex()})

    def case_ptr8(self):
        return True

    def split_ivs(self, blocks):
        rng = self.rng
        n = min(len(blocks), rng.choice([1, 1, 1, 2, 2, 3]))
        cuts = sorted(rng.sample(range(1, len(blocks)), n - 1)) if n > 1 \
            else []
        # (gtirb_layout cannot place an interval that starts with a
        # zero-sized block falling through to the block at the same offset,
        # nor one that ends with a zero-sized block behind a block that falls
        # through into the next interval: which of two blocks at one offset
        # is the first / last one depends on set order there)
        cuts = [c for c in cuts
                if (not blocks[c]["code"] or blocks[c]["items"]) and
                (not blocks[c - 1]["code"] or blocks[c - 1]["items"])]
        ivs = []
        prev = 0
        for c in cuts + [len(blocks)]:
            ivs.append({"gap": rng.choice([0, 0, 0, 16]),
                        "blocks": blocks[prev:c]})
            if rng.random() < 0.12:
                ivs[-1]["lead"] = rng.choice([1, 3, 4, 8])
            prev = c
        ivs[0]["gap"] = 0
        return ivs

    # ------------------------------------------------------------ patches
    def patch(self, eid, into_code=True, in_fn=None):
        rng = self.rng
        isa = self.case["isa"]
        lines = [{"k": "mark", "imm": self.mark(eid)}]
        own = []
        n = rng.choice([0, 0, 1, 1, 2, 3, 4])
        shape = rng.random()
        labels_here = [f"pt{eid}_a", f"pt{eid}_b"]
        # temporary labels (assembler-private prefix): the module symbol gets
        # a per-patch suffix
        temp = {}
        if isa not in ("ia32", "mips32"):
            for j, nm in enumerate(list(labels_here)):
                if rng.random() < 0.35:
                    labels_here[j] = ".L" + nm
                    temp[".L" + nm] = True
        if shape < 0.15:
            # forward skip over a label
            lines.append({"k": "jne", "t": labels_here[0]})
            lines.append({"k": rng.choice(ORD_KEYS)})
            lines.append({"l": labels_here[0]})
            own.append(labels_here[0])
        elif shape < 0.25:
            # backward loop
            if rng.random() < 0.4:
                # ... whose head is the very first instruction of the patch
                lines.insert(0, {"l": labels_here[0]})
            else:
                lines.append({"l": labels_here[0]})
            own.append(labels_here[0])
            lines.append({"k": rng.choice(ORD_KEYS)})
            lines.append({"k": "jne", "t": labels_here[0]})
        elif shape < 0.31 and into_code:
            # inline data the patch jumps over, under one or two labels
            lines.append({"k": "jmp", "t": labels_here[0]})
            lines.append({"l": labels_here[1]})
            own.append(labels_here[1])
            if rng.random() < 0.6:
                third = ("" if isa in ("ia32", "mips32") or rng.random() < 0.5
                         else ".L") + f"pt{eid}_e"
                if third.startswith(".L"):
                    temp[third] = True
                lines.append({"l": third})
            if rng.random() < 0.4:
                # an alignment directive that demands nothing (no padding)
                lines.insert(len(lines) - rng.choice([0, 1]),
                             {"d": "balign", "n": 1})
            lines.append({"k": "bytes",
                          "hex": rng.randbytes(rng.randrange(1, 5)).hex()})
            lines.append({"l": labels_here[0]})
            own.append(labels_here[0])
        for _ in range(n):
            r = rng.random()
            if r < 0.45:
                lines.append({"k": rng.choice(ORD_KEYS)})
            elif r < 0.65 and self.any_labels:
                lines.append({"k": rng.choice(
                    [k for k in PATCH_SYM_KEYS
                     if k in vocab.VOCAB[self.case["isa"]]]),
                    "t": rng.choice(self.any_labels + own)})
                if rng.random() < 0.3:
                    # (the assembler refuses "symbol - constant":
                    # UnsupportedAssemblyError)
                    lines[-1]["add"] = rng.choice([4, 8, 16, 64])
            elif r < 0.75:
                nm = labels_here[1] if labels_here[1] not in own else None
                if nm:
                    lines.append({"l": nm})
                    own.append(nm)
            elif r < 0.87:
                pool = []
                if self.func_labels:
                    pool += self.func_labels * 2
                if in_fn:
                    pool += [in_fn] * 2
                pool += self.case["externs"]
                pool += self.callable_labels[:3]
                lines.append({"k": "call", "t": rng.choice(pool)})
                if self.knobs.get("double_call_p") and \
                        rng.random() < self.knobs["double_call_p"]:
                    # the same callee twice in one patch: two return sites
                    lines.append({"k": rng.choice(ORD_KEYS)})
                    lines.append(dict(lines[-2]))
            elif r < 0.93:
                lines.append({"k": "icall"})
            elif self.code_labels:
                lines.append({"k": "jne", "t": rng.choice(self.code_labels)})
        end = rng.random()
        if end < 0.10:
            lines.append({"k": "ret"})
        elif end < 0.18 and self.code_labels:
            lines.append({"k": "jmp", "t": rng.choice(self.code_labels)})
        elif end < 0.22:
            lines.append({"k": "ijmp"})
        elif end < 0.26:
            lines.append({"k": term_key(isa, "halt", rng, orig=False)})
        elif end < 0.32:
            nm = f"pt{eid}_z"
            if isa not in ("ia32", "mips32") and rng.random() < 0.3:
                nm = ".L" + nm
                temp[nm] = True
            lines.append({"l": nm})
        if self.case["fmt"] == "elf" and into_code and \
                self.knobs.get("other_sections", True) and \
                rng.random() < 0.1:
            # the patch also emits data into another section (an existing
            # one or a new one) and refers to it
            nm = f"pt{eid}_o"
            if rng.random() < 0.5 and isa != "mips32":
                nm = ".L" + nm
                temp[nm] = True
            sec = rng.choice([".data", ".data", f"nsec{eid % 2}"])
            k = rng.choice([k for k in ("lea_sym", "mov_sym")
                            if k in vocab.VOCAB[isa]])
            lines.insert(1, {"k": k, "t": nm})
            lines.append({"sec": sec})
            if rng.random() < 0.08:
                # nothing but the label: the library refuses (a label on a
                # zero-sized block of another section, NotImplementedError)
                lines.append({"l": nm})
                self.case["label_only_tail"] = True
            else:
                if rng.random() < 0.3:
                    lines.append({"k": "bytes", "hex": rng.randbytes(
                        rng.randrange(1, 4)).hex()})
                lines.append({"l": nm})
                lines.append({"k": "bytes", "hex": rng.randbytes(
                    rng.randrange(1, 9)).hex()})
        if self.knobs.get("align_lines") and rng.random() < 0.25:
            # real alignment requirements inside the patch (only for checks
            # that do not predict exact byte positions)
            a1 = rng.choice([2, 4, 8, 16] if isa not in ("arm64", "mips32")
                            else [4, 8, 16])
            at = rng.choice([0, 0, 1, len(lines)])
            if at == 0 and rng.random() < 0.4:
                # two requirements on one address, separated by a label
                lines[0:0] = [{"d": "balign", "n": a1},
                              {"l": f"pt{eid}_g"},
                              {"d": "balign", "n": rng.choice([2, 4, 16])}]
            elif at == len(lines):
                lines += [{"d": "balign", "n": a1}, {"l": f"pt{eid}_g"},
                          {"k": rng.choice(ORD_KEYS)}]
            else:
                lines.insert(at, {"d": "balign", "n": a1})
        for ln in lines:
            if ln.get("l") in temp:
                ln["temp"] = True
        res = {"lines": lines}
        if isa == "x64" and self.knobs.get("intel_p", 0.12) and \
                rng.random() < self.knobs.get("intel_p", 0.12) and all(
                    "intel" in vocab.VOCAB[isa][ln["k"]] for ln in lines
                    if "k" in ln and ln["k"] != "bytes"):
            # the same patch written in Intel syntax
            res["intel"] = True
        return res

    def mark(self, eid):
        if self.case["isa"] == "arm64":
            return (0x4000 + eid) & 0xFFFF
        if self.case["isa"] == "mips32":
            return (0x1000 + eid) & 0x7FFF
        return MARK_BASE + eid

    # ------------------------------------------------------------ edits
    def edits(self, maxn=None):
        rng = self.rng
        case = self.case
        if maxn is None:
            maxn = 16 if self.tier == "thorough" and rng.random() < 0.2 \
                else 6
        n = rng.choice([1, 1, 1, 2, 2, 3, 4, 5, maxn])
        per_block = {}     # bid -> list of (i, n, id, kind)
        edits = []
        blocks = self.all_blocks
        if case["funcs"] and self.code_blocks and \
                rng.random() < self.knobs.get("themed_p", 0.2) and \
                not getattr(self, "one_per_block", False):
            self.themed_edits(edits, per_block)
        if case.get("call_pair") is not None and rng.random() < 0.6 and \
                not per_block.get(case["call_pair"]):
            b = next(x for x in blocks if x["id"] == case["call_pair"])
            per_block.setdefault(b["id"], []).append(
                (0, len(b["items"]), len(edits), "delall"))
            edits.append({"op": "del", "b": b["id"], "i": 0,
                          "n": len(b["items"]), "proxy": False})
        if rng.random() < 0.5 and not getattr(self, "one_per_block", False):
            self.around_empty_edits(edits, per_block)
        if self.knobs.get("entry_chain_p") and case["funcs"] and \
                rng.random() < self.knobs["entry_chain_p"]:
            # the entry block of a function and the block behind it are both
            # deleted as whole blocks (the entry role moves on twice)
            fs = [f for f in case["funcs"] if len(f["blocks"]) >= 3]
            if fs:
                f = rng.choice(fs)
                byid = {b["id"]: b for b in self.all_blocks}
                for bid in f["blocks"][:2]:
                    b = byid[bid]
                    n_ = len(b["items"])
                    if n_ and not per_block.get(bid):
                        per_block.setdefault(bid, []).append(
                            (0, n_, len(edits), "delall"))
                        edits.append({"op": "del", "b": bid, "i": 0,
                                      "n": n_, "proxy": False})
        if self.knobs.get("entry_kept_p") and case["funcs"] and \
                rng.random() < self.knobs["entry_kept_p"]:
            # an entry block that something branches to or calls, followed
            # by data and then by more code of its function; the entry and
            # the data are deleted as whole blocks: the entry is kept while
            # the data is behind it and hands its role on when that goes
            seqb = [b for s_ in case["secs"] for iv in s_["ivs"]
                    for b in iv["blocks"]]
            tgts = {it.get("t") for b in seqb if b["code"]
                    for it in b["items"][-1:]}
            cands = []
            for f in case["funcs"]:
                for e in f["entries"]:
                    k = next(i for i, b in enumerate(seqb) if b["id"] == e)
                    if k + 2 < len(seqb) and seqb[k]["items"] and \
                            not seqb[k + 1]["code"] and \
                            seqb[k + 1]["items"] and seqb[k + 2]["code"] \
                            and seqb[k + 2]["id"] in f["blocks"] and \
                            not per_block.get(e) and \
                            not per_block.get(seqb[k + 1]["id"]):
                        cands.append((bool(set(seqb[k]["labels"]) & tgts),
                                      k))
            if cands:
                best = [c for c in cands if c[0]] or cands
                k = rng.choice(best)[1]
                for b in seqb[k:k + 2]:
                    n_ = len(b["items"])
                    per_block.setdefault(b["id"], []).append(
                        (0, n_, len(edits), "delall"))
                    edits.append({"op": "del", "b": b["id"], "i": 0,
                                  "n": n_, "proxy": False})
        for _ in range(n * 3):
            if len(edits) >= n:
                break
            eid = len(edits)
            b = rng.choice(blocks if rng.random() < 0.2
                           else (self.code_blocks or blocks))
            nitems = len(b["items"])
            if not nitems:
                # the library does not modify zero-sized blocks
                continue
            op = rng.choices(["ins", "rep", "del", "delall", "delproxy",
                              "delfn"], [45, 15, 15, 10, 8, 7])[0]
            if op == "delfn":
                if not case["funcs"]:
                    continue
                f = rng.choice(case["funcs"])
                if any(per_block.get(x) for x in f["blocks"]):
                    continue
                for x in f["blocks"]:
                    per_block.setdefault(x, []).append(
                        (0, 10 ** 6, eid, "proxy"))
                edits.append({"op": "delfn", "f": f["name"]})
                continue
            mods = per_block.setdefault(b["id"], [])
            if any(m[3] == "proxy" for m in mods):
                continue
            if mods and getattr(self, "one_per_block", False):
                continue
            pos = rng.choice(["start", "mid", "mid", "before_term", "end"])
            if pos == "start":
                i = 0
            elif pos == "end":
                i = nitems
            elif pos == "before_term":
                i = max(0, nitems - 1)
            else:
                i = rng.randrange(0, nitems + 1)
            if op == "ins":
                cnt = 0
            elif op in ("delall", "delproxy"):
                i, cnt = 0, nitems
            else:
                if i >= nitems:
                    i = max(0, nitems - 1)
                cnt = rng.randrange(1, nitems - i + 1) if nitems - i >= 1 \
                    else 0
                if rng.random() < 0.03:
                    cnt = 0
            if op == "delproxy" and mods:
                continue
            cand = (i, cnt, eid, "proxy" if op == "delproxy" else op)
            if not self.valid(mods + [cand], nitems):
                continue
            mods.append(cand)
            if op in ("ins", "rep"):
                if b["code"]:
                    p = self.patch(eid, True, self.fn_of.get(b["id"]))
                elif rng.random() < self.knobs.get("data_bytes_p", 0.7):
                    p = {"bytes": rng.randbytes(rng.randrange(1, 6)).hex()}
                    if op == "rep" and cnt and rng.random() < 0.35 and all(
                            it["k"] == "bytes" for it in
                            b["items"][i:i + cnt]):
                        # exactly as many bytes as it replaces
                        p = {"bytes": rng.randbytes(sum(
                            len(it["hex"]) // 2
                            for it in b["items"][i:i + cnt])).hex()}
                else:
                    p = {"lines": [{"k": "bytes",
                                    "hex": rng.randbytes(
                                        rng.randrange(1, 5)).hex()}]}
                    if case["isa"] not in ("ia32", "mips32") and \
                            rng.random() < self.knobs.get("data_temp_p", 0.5):
                        p["lines"].insert(
                            rng.choice([0, 1]),
                            {"l": f".Lpt{eid}_d", "temp": True})
                e = {"op": op, "b": b["id"], "i": i, "p": p}
                if op == "rep":
                    e["n"] = cnt
                if op == "ins" and i == 0 and b["code"] and "lines" in p:
                    fs = [f for f in case["funcs"]
                          if f["entries"] == [b["id"]]]
                    if len(fs) == 1 and rng.random() < self.knobs.get(
                            "fnscope_p", 0.5):
                        e["via"] = "fnscope"
                        e["fn"] = fs[0]["name"]
                        e["anywhere"] = rng.random() < self.knobs.get(
                            "anywhere_p", 0.3)
                edits.append(e)
            else:
                edits.append({"op": "del", "b": b["id"], "i": i, "n": cnt,
                              "proxy": op == "delproxy"})
        case["edits"] = edits
        self.cross_patch_references(edits)
        if rng.random() < 0.2:
            case["driver"] = "passes"
        if case["fmt"] == "elf" and rng.random() < 0.15 and self.any_labels:
            # the rewriter asks for names the module already has, through the
            # "get or insert an extern symbol" call, and its patches use them
            names = sorted({ln["t"] for e in edits
                            for ln in e.get("p", {}).get("lines", [])
                            if ln.get("t") in self.any_labels})
            case["extern_lookups"] = names[:3] or [
                rng.choice(self.any_labels)]
        return edits

    def around_empty_edits(self, edits, per_block):
        """modifications next to a zero-sized input block: the block behind it
        (which shares its address) deleted, replaced or extended at its
        start, the block in front extended at its end or deleted, the
        function the zero-sized block belongs to deleted"""
        rng, case = self.rng, self.case
        seq = self.all_blocks
        for k, e in enumerate(seq):
            if not e["code"] or e["items"] or k + 1 >= len(seq) or not k:
                continue
            nxt, prv = seq[k + 1], seq[k - 1]
            fn = next((f for f in case["funcs"] if e["id"] in f["blocks"]),
                      None)
            if fn is not None and nxt["id"] not in fn["blocks"] and \
                    rng.random() < 0.3 and \
                    not any(per_block.get(x) for x in fn["blocks"]):
                for x in fn["blocks"]:
                    per_block.setdefault(x, []).append(
                        (0, 10 ** 6, len(edits), "proxy"))
                edits.append({"op": "delfn", "f": fn["name"]})
            for b, where in ((nxt, "start"), (prv, "end")):
                n = len(b["items"])
                if not n or per_block.get(b["id"]) or rng.random() < 0.4:
                    continue
                eid = len(edits)
                kind = rng.choice(["ins", "ins", "delall", "delproxy",
                                   "rep"] if where == "start"
                                  else ["ins", "delall"])
                if kind == "ins":
                    i = 0 if where == "start" else n
                    p = self.patch(eid, True, self.fn_of.get(b["id"])) \
                        if b["code"] else {"bytes": rng.randbytes(2).hex()}
                    cand, ed = (i, 0, eid, "ins"), {
                        "op": "ins", "b": b["id"], "i": i, "p": p}
                elif kind == "rep":
                    p = self.patch(eid, True, self.fn_of.get(b["id"])) \
                        if b["code"] else {"bytes": rng.randbytes(2).hex()}
                    cand, ed = (0, 1, eid, "rep"), {
                        "op": "rep", "b": b["id"], "i": 0, "n": 1, "p": p}
                else:
                    cand, ed = (0, n, eid, "proxy" if kind == "delproxy"
                                else "delall"), {
                        "op": "del", "b": b["id"], "i": 0, "n": n,
                        "proxy": kind == "delproxy"}
                if self.valid([cand], n):
                    per_block.setdefault(b["id"], []).append(cand)
                    edits.append(ed)

    def cross_patch_references(self, edits):
        """a patch may name a global label that a patch applied earlier in
        the same rewrite (lower address, or same place and registered
        earlier) brought into the module"""
        rng = self.rng
        order = {}
        for s in self.case["secs"]:
            for iv in s["ivs"]:
                for b in iv["blocks"]:
                    order[b["id"]] = len(order)
        patches = []
        for eid, e in enumerate(edits):
            if e.get("op") in ("ins", "rep") and "lines" in e.get("p", {}):
                patches.append(((order[e["b"]], e["i"], eid), e))
        patches.sort(key=lambda x: x[0])
        seen = []
        for _, e in patches:
            lines = e["p"]["lines"]
            cut = next((k for k, ln in enumerate(lines) if "sec" in ln),
                       len(lines))
            if seen and rng.random() < 0.2:
                uses = [ln for ln in lines[:cut]
                        if ln.get("k") in PATCH_SYM_KEYS and "t" in ln]
                if uses:
                    rng.choice(uses)["t"] = rng.choice(seen)
                    self.case["cross_patch_refs"] = True
            seen += [ln["l"] for ln in lines[:cut]
                     if "l" in ln and not ln.get("temp")]

    def themed_edits(self, edits, per_block):
        """2-3 modifications that all concern one function F: edits at call
        sites of F (insertion right behind the call, deletion of the call),
        patches that call F placed in other blocks, a returning patch inside
        F.  The return-edge bookkeeping of the library is shared state
        between exactly these modifications."""
        rng, case = self.rng, self.case
        isa = case["isa"]
        f = rng.choice(case["funcs"])
        if rng.random() < 0.5:
            # the function with the most call sites
            ncalls = {}
            for b in self.code_blocks:
                if b["items"] and b["items"][-1].get("k") == "call":
                    t = b["items"][-1].get("t")
                    ncalls[t] = ncalls.get(t, 0) + 1
            best = max(case["funcs"], key=lambda x: ncalls.get(x["name"], 0))
            if ncalls.get(best["name"], 0) >= 2:
                f = best
            # ... or a called function with several returning blocks
            many = [x for x in case["funcs"] if ncalls.get(x["name"], 0) and
                    sum(1 for b in self.code_blocks
                        if b["id"] in x["blocks"] and b["items"] and
                        vocab.VOCAB[isa][b["items"][-1]["k"]]["kind"]
                        == "ret") >= 2]
            if many and rng.random() < 0.5:
                f = rng.choice(many)
        fname = f["name"]
        sites = [b for b in self.code_blocks if b["items"] and
                 b["items"][-1].get("k") == "call" and
                 b["items"][-1].get("t") == fname]
        others = [b for b in self.code_blocks if b not in sites and
                  b["items"]]
        members = [b for b in self.code_blocks if b["id"] in f["blocks"] and
                   b["items"]]
        plans = []
        for b in rng.sample(sites, min(len(sites), rng.choice([1, 1, 2]))):
            plans.append((b, rng.choice(["after-call", "after-call",
                                         "del-call", "del-call",
                                         "before-call"])))
        # a call block that is itself the return site of a call to F in the
        # block in front of it: deleted as a whole
        for b in sites:
            k = self.all_blocks.index(b)
            if k and self.all_blocks[k - 1] in sites and rng.random() < 0.5:
                plans.append((b, "del-whole"))
        for b in rng.sample(others, min(len(others), rng.choice([1, 1, 2]))):
            plans.append((b, "patch-calls"))
        if members and rng.random() < 0.6:
            plans.append((rng.choice(members), "patch-rets"))
            if rng.random() < 0.4:
                # a second returning patch further on (what the first one
                # and the call-site edits in between leave behind is what
                # the second one sees)
                plans.append((rng.choice(members), "patch-rets"))
        rng.shuffle(plans)
        for b, what in plans[:4]:
            eid = len(edits)
            n = len(b["items"])
            mods = per_block.setdefault(b["id"], [])
            if what == "del-whole":
                cand = (0, n, eid, "delall")
                e = {"op": "del", "b": b["id"], "i": 0, "n": n,
                     "proxy": False}
            elif what == "del-call":
                cand = (n - 1, 1, eid, "del")
                e = {"op": "del", "b": b["id"], "i": n - 1, "n": 1,
                     "proxy": False}
            else:
                i = {"after-call": n, "before-call": n - 1}.get(
                    what, rng.randrange(0, n + 1))
                lines = [{"k": "mark", "imm": self.mark(eid)}]
                if what == "patch-calls":
                    lines.append({"k": "call", "t": fname})
                    if rng.random() < 0.5:
                        lines.append({"k": rng.choice(ORD_KEYS)})
                elif what == "patch-rets":
                    lines.append({"k": "ret"})
                else:
                    lines.append({"k": rng.choice(ORD_KEYS)})
                    if rng.random() < 0.3:
                        lines.append({"k": "call", "t": fname})
                cand = (i, 0, eid, "ins")
                e = {"op": "ins", "b": b["id"], "i": i,
                     "p": {"lines": lines}}
            if not self.valid(mods + [cand], n):
                continue
            mods.append(cand)
            edits.append(e)

    @staticmethod
    def valid(mods, nitems):
        """mirror of the documented preconditions (DESIGN 2.1)"""
        last_end = 0
        whole_deleted = False
        survivors = 0       # surviving original items since the last patch
        prev_end = 0
        for (i, n, eid, kind) in sorted(mods, key=lambda m: (m[0], m[2])):
            n = min(n, nitems - i) if kind == "proxy" else n
            if whole_deleted:
                return False
            if i < last_end:
                return False
            last_end = i + n
            survivors += i - prev_end
            prev_end = i + n
            # a deletion reaching the block's end returns no block for later
            # modifications when nothing (original) survives in front of it
            # since the last patch (conservative: the patch may have ended in
            # a terminator, or everything in front was deleted)
            if kind in ("del", "delall", "proxy") and i + n == nitems and \
                    nitems > 0 and survivors == 0:
                whole_deleted = True
            if kind in ("ins", "rep"):
                survivors = 0
            if kind in ("del", "delall") and nitems == 0:
                return False
        # a whole-block deletion must be the last modification in sorted
        # order, and a proxy deletion the only one
        if any(m[3] == "proxy" for m in mods) and len(mods) > 1:
            return False
        return True


def generate(rng, tier="quick", **knobs):
    g = Gen(rng, tier, **knobs)
    g.module()
    g.edits()
    # (drawn last, so that everything above is generated as before)
    p = knobs.get("bystander_p", 0.12)
    if p and rng.random() < p:
        if rng.random() < 0.7:
            g.case["bystander"] = "twin"
        else:
            g2 = Gen(rng, tier, empty_blocks_p=0)
            g2.module()
            g.case["bystander"] = g2.case
    return g.case
