"""
Harness side of the in-repo hook: at every quiescent point of a rewrite the
answers given through the rewrite caches are compared with the IR itself.
"""
import gtirb


class CacheMonitor:
    def __init__(self):
        self.viol = []          # (key, msg)
        self.ctr = {"hook_events": 0, "ordering_comparisons": 0,
                    "function_comparisons": 0, "return_edge_comparisons": 0,
                    "reference_comparisons": 0, "assembler_lookups": 0}
        self.shadow = None      # symbol id -> (symbol, block, at_end)
        self._patched = []

    # ------------------------------------------------------------ listener
    def __call__(self, event, **kw):
        self.ctr["hook_events"] += 1
        cache = kw["cache"]
        try:
            # addresses are the ground truth of the ordering only while the
            # intervals do not overlap: always at apply_begin; afterwards only
            # when every block group sits in an interval of its own (a fresh
            # module); contexts that start from an already rewritten module
            # are judged at apply_begin only
            if getattr(self, "ordering_events", None) is None or \
                    event in self.ordering_events:
                self.check_ordering(cache, event)
            self.check_functions(cache, event)
            self.check_returns(cache, event)
            self.check_references(cache, event)
        except Exception as exc:  # noqa  a monitor bug must not kill the SUT
            self.viol.append((f"monitor-error:{type(exc).__name__}",
                              repr(exc)[:300]))

    def bad(self, key, msg):
        if len(self.viol) < 50:
            self.viol.append((key, msg))

    # ------------------------------------------------------------ ordering
    def check_ordering(self, cache, event):
        m = cache.module
        for sect in m.sections:
            blocks = [b for b in sect.byte_blocks]
            if not blocks:
                continue
            ordering = cache.block_ordering[sect]
            gt_key = {}
            for b in blocks:
                bi = b.byte_interval
                gt_key[id(b)] = (bi.address is None,
                                 bi.address if bi.address is not None
                                 else id(bi), b.offset)
            seen = set()
            for b in blocks:
                self.ctr["ordering_comparisons"] += 1
                try:
                    prev, nxt = ordering.adjacent_blocks(b)
                except KeyError:
                    self.bad("cache:ordering:block-not-ordered",
                             f"{event}: {type(b).__name__} at {b.offset}")
                    continue
                seen.add(id(b))
                for nb, sign in ((prev, -1), (nxt, 1)):
                    if nb is None:
                        continue
                    if nb.byte_interval is None or nb.section is not sect:
                        self.bad("cache:ordering:neighbour-detached",
                                 f"{event}")
                        continue
                    ka, kb = gt_key[id(b)], gt_key.get(id(nb))
                    if kb is None:
                        self.bad("cache:ordering:neighbour-unknown", event)
                        continue
                    if ka[0] != kb[0]:
                        self.bad("cache:ordering:mixes-detached-interval",
                                 event)
                        continue
                    if ka[0]:
                        # blocks of a freshly added interval: only ordered
                        # among themselves
                        if ka[1] != kb[1]:
                            self.bad("cache:ordering:new-interval-linked",
                                     event)
                        continue
                    if (not b.size and not nb.size
                            and b.byte_interval is not nb.byte_interval
                            and ka[1] + ka[2] == kb[1] + kb[2]):
                        # two zero-sized blocks at one address in different
                        # pieces (the second piece starts where the first
                        # ends): the IR itself does not order them
                        self.ctr["ordering_ties_skipped"] = self.ctr.get(
                            "ordering_ties_skipped", 0) + 1
                        continue
                    if (sign > 0 and kb < ka) or (sign < 0 and kb > ka):
                        self.bad("cache:ordering:not-in-address-order",
                                 f"{event}: {ka} vs neighbour {kb}")
                    elif ka[1:] == kb[1:] and ka[1] == kb[1]:
                        # same position: a zero-sized block comes first
                        first, second = (b, nb) if sign > 0 else (nb, b)
                        if first.size and not second.size:
                            self.bad("cache:ordering:zero-sized-after",
                                     event)
                # the true successor: smallest key greater than mine must be
                # what the cache says (ties among zero-sized blocks aside)
            # nothing between neighbours: check successor minimality
            order = sorted((b for b in blocks
                            if b.byte_interval.address is not None),
                           key=lambda b: gt_key[id(b)][1:])
            for a, c in zip(order, order[1:]):
                if gt_key[id(a)][1:] == gt_key[id(c)][1:]:
                    # same place (zero-sized blocks, empty intervals): the
                    # order among them is not defined
                    continue
                try:
                    _, nxt = ordering.adjacent_blocks(a)
                except KeyError:
                    continue
                if nxt is None:
                    self.bad("cache:ordering:successor-missing",
                             f"{event}: after {gt_key[id(a)]}")
                elif gt_key[id(nxt)][1:] > gt_key[id(c)][1:]:
                    self.bad("cache:ordering:skips-a-block",
                             f"{event}: {gt_key[id(a)]} -> "
                             f"{gt_key[id(nxt)]} skips {gt_key[id(c)]}")

    # ------------------------------------------------------------ functions
    def check_functions(self, cache, event):
        m = cache.module
        fb = m.aux_data.get("functionBlocks")
        if fb is None:
            return
        inv = {}
        for fu, blocks in fb.data.items():
            for b in blocks:
                inv[id(b)] = (b, fu)
        for b, fu in cache.functions_by_block.items():
            self.ctr["function_comparisons"] += 1
            if id(b) not in inv:
                if b.byte_interval is not None:
                    self.bad("cache:functions:block-not-in-table", event)
            elif inv[id(b)][1] != fu:
                self.bad("cache:functions:different-function", event)
        have = {id(b) for b in cache.functions_by_block}
        for bid, (b, fu) in inv.items():
            if bid not in have:
                self.bad("cache:functions:table-block-not-in-cache", event)

    # ------------------------------------------------------------ returns
    def check_returns(self, cache, event):
        m = cache.module
        cfg = m.ir.cfg
        if cfg is not cache.return_cache:
            self.bad("cache:returns:ir-cfg-is-not-the-cache", event)
        scan = {}
        pscan = {}
        for e in cfg:
            if e.label is not None and e.label.type == \
                    gtirb.Edge.Type.Return:
                scan.setdefault(id(e.source), set()).add(e)
                if isinstance(e.target, gtirb.ProxyBlock):
                    pscan.setdefault(id(e.source), set()).add(e)
        for b in m.code_blocks:
            self.ctr["return_edge_comparisons"] += 1
            if cache.return_cache.block_return_edges(b) != scan.get(
                    id(b), set()):
                self.bad("cache:returns:block-return-edges-differ", event)
            if cache.return_cache.block_proxy_return_edges(b) != pscan.get(
                    id(b), set()):
                self.bad("cache:returns:proxy-return-edges-differ", event)
            if cache.return_cache.any_return_edges(b) != (id(b) in scan):
                self.bad("cache:returns:any-return-edges-differs", event)

    # ------------------------------------------------------------ references
    def resolve_readonly(self, rc, sym):
        """what get_referent would answer, without touching the cache"""
        from gtirb_rewriting._modify.cache import RefNode
        node = rc._referents.get(sym)
        if node is None:
            return sym.referent, sym.at_end
        ref = node
        parent = ref.parent
        hops = 0
        while isinstance(parent, RefNode):
            ref, parent = parent, parent.parent
            hops += 1
            if hops > 100000:
                return "CYCLE", None
        roots = rc._references.get(parent)
        if roots is None:
            return "UNROOTED", None
        return parent, ref is roots[1]

    def install_shadow(self, module):
        """interpose on the reference cache's mutators to keep a dict model"""
        from gtirb_rewriting._modify.cache import ReferenceCache
        mon = self
        self.shadow = {}
        for s in module.symbols:
            self.shadow[id(s)] = (s, s.referent, s.at_end)
        orig_retarget = ReferenceCache.retarget_references
        orig_set = ReferenceCache.set_referent

        def retarget(rc, block, to_block, at_end, **kw):
            mon.sync_direct(module)
            keep_end = kw.get("keep_end_references", False)
            moved = [k for k, (s, b, e) in mon.shadow.items() if b is block]
            orig_retarget(rc, block, to_block, at_end, **kw)
            if to_block is not None:
                for k in moved:
                    s, b, e = mon.shadow[k]
                    ne = True if (keep_end and e) else at_end
                    mon.shadow[k] = (s, to_block, ne)

        def set_referent(rc, symbol, referent, at_end):
            orig_set(rc, symbol, referent, at_end)
            mon.shadow[id(symbol)] = (symbol, referent, at_end)

        ReferenceCache.retarget_references = retarget
        ReferenceCache.set_referent = set_referent
        self._patched = [(ReferenceCache, "retarget_references",
                          orig_retarget),
                         (ReferenceCache, "set_referent", orig_set)]
        # direct IR readers: what the assembler sees when it resolves a name
        from gtirb_rewriting.assembler import assembler as asm_mod
        orig_lookup = asm_mod._Streamer._symbol_lookup

        def lookup(streamer, name):
            sym = orig_lookup(streamer, name)
            if sym is not None and id(sym) in mon.shadow and \
                    sym.module is module:
                mon.ctr["assembler_lookups"] += 1
                _, sb, se = mon.shadow[id(sym)]
                if sym.referent is None and sb is not None:
                    mon.bad("cache:direct-reader-sees-no-referent",
                            f"assembler resolved {name}: referent None, "
                            f"cache model has a block")
            return sym

        asm_mod._Streamer._symbol_lookup = lookup
        self._patched.append((asm_mod._Streamer, "_symbol_lookup",
                              orig_lookup))

    def uninstall(self):
        for cls, name, orig in self._patched:
            setattr(cls, name, orig)
        self._patched = []

    def sync_direct(self, module):
        """symbols with a direct referent: the IR is the truth"""
        for s in module.symbols:
            if s.referent is not None or id(s) not in self.shadow:
                self.shadow[id(s)] = (s, s.referent, s.at_end)

    def check_references(self, cache, event):
        if self.shadow is None:
            return
        rc = cache.reference_cache
        m = cache.module
        self.sync_direct(m)
        for s in m.symbols:
            self.ctr["reference_comparisons"] += 1
            blk, at_end = self.resolve_readonly(rc, s)
            if blk in ("CYCLE", "UNROOTED"):
                self.bad(f"cache:references:{blk.lower()}",
                         f"{event}: {s.name}")
                continue
            _, sb, se = self.shadow[id(s)]
            if blk is not sb:
                self.bad("cache:references:referent-differs-from-model",
                         f"{event}: {s.name}")
            elif blk is not None and bool(at_end) != bool(se):
                self.bad("cache:references:at_end-differs-from-model",
                         f"{event}: {s.name}")
            if isinstance(blk, gtirb.ByteBlock) and blk.byte_interval is None:
                self.bad("cache:references:referent-detached",
                         f"{event}: {s.name}")
