"""
Concrete interpreter with shadow stack memory for the handful of instruction
forms the library emits around patches (prologue/epilogue, CallPatch) on
x86-64, IA32, ARM64 and MIPS32.  Instructions are decoded by capstone from the
bytes the real assembler produced.  Values are Python ints or symbolic tuples
("addr", sym) / ("load", sym) / ("page", sym).  An instruction outside the
vocabulary raises Unsupported, which makes the case inconclusive.
"""
import capstone

from . import irview


class Unsupported(Exception):
    pass


X86_PARENT = {}
for _p, _subs in {
        "rax": ("eax", "ax", "al", "ah"), "rbx": ("ebx", "bx", "bl", "bh"),
        "rcx": ("ecx", "cx", "cl", "ch"), "rdx": ("edx", "dx", "dl", "dh"),
        "rsi": ("esi", "si", "sil"), "rdi": ("edi", "di", "dil"),
        "rbp": ("ebp", "bp", "bpl"), "rsp": ("esp", "sp", "spl")}.items():
    X86_PARENT[_p] = (_p, 64)
    X86_PARENT[_subs[0]] = (_p, 32)
for _i in range(8, 16):
    X86_PARENT[f"r{_i}"] = (f"r{_i}", 64)
    X86_PARENT[f"r{_i}d"] = (f"r{_i}", 32)


class Machine:
    def __init__(self, isa, regs, sp, flags, exprs=None, red_zone=0,
                 leaf=False):
        self.isa = isa
        self.ptr = 8 if isa in ("x64", "arm64") else 4
        self.mask = (1 << (8 * self.ptr)) - 1
        self.regs = dict(regs)
        self.spname = {"x64": "rsp", "ia32": "rsp", "arm64": "sp",
                       "mips32": "sp"}[isa]
        self.regs[self.spname] = sp
        self.sp0 = sp
        self.flags = flags
        self.mem = {}        # addr -> byte value (int or symbolic)
        self.shadow = {}     # addr -> phase that wrote it
        self.phase = "prologue"
        self.exprs = exprs or {}
        self.red_zone = red_zone
        self.leaf = leaf
        self.problems = []   # (key, msg)
        self.calls = []      # (target, snapshot of regs, sp)
        self.flag_writes = 0
        self.rng = None
        self.ninstr = 0
        self.check_sp_alignment = isa == "arm64"

    # ------------------------------------------------------------ helpers
    @property
    def sp(self):
        return self.regs[self.spname]

    @sp.setter
    def sp(self, v):
        self.regs[self.spname] = v & self.mask

    def bad(self, key, msg):
        if len(self.problems) < 20:
            self.problems.append((key, msg))

    def write(self, addr, value, size):
        """value: int or symbolic"""
        if self.phase != "body":
            if addr + size > self.sp0 and self.phase != "caller":
                self.bad("write-at-or-above-original-sp",
                         f"{self.phase}: {size} bytes at sp0{addr - self.sp0:+d}")
            elif self.leaf and self.red_zone and \
                    addr + size > self.sp0 - self.red_zone:
                self.bad("write-into-red-zone",
                         f"{self.phase}: {size} bytes at sp0{addr - self.sp0:+d}")
        for i in range(size):
            if isinstance(value, int):
                b = (value >> (8 * i)) & 0xFF if self.isa != "mips32" else \
                    (value >> (8 * (size - 1 - i))) & 0xFF
            else:
                b = ("symbyte", value, i)
            self.mem[addr + i] = b
            self.shadow[addr + i] = self.phase

    def read(self, addr, size):
        bs = []
        for i in range(size):
            a = addr + i
            if a not in self.mem:
                if self.phase != "body":
                    self.bad("read-of-unwritten-stack-slot",
                             f"{self.phase}: sp0{a - self.sp0:+d}")
                bs.append(0)
            else:
                if self.phase in ("prologue", "epilogue") and \
                        self.shadow.get(a) == "body":
                    self.bad("read-of-slot-overwritten-by-body",
                             f"{self.phase}: sp0{a - self.sp0:+d}")
                bs.append(self.mem[a])
        if all(isinstance(b, int) for b in bs):
            if self.isa == "mips32":
                bs = bs[::-1]
            return sum(b << (8 * i) for i, b in enumerate(bs))
        first = bs[0]
        if isinstance(first, tuple) and all(
                isinstance(b, tuple) and b[1] == first[1] and b[2] == i
                for i, b in enumerate(bs)):
            return first[1]
        return ("mixed",)

    def sym_at(self, off, size):
        for o in range(off, off + size):
            if o in self.exprs:
                return self.exprs[o]
        return None

    # ------------------------------------------------------------ running
    def run(self, data, base_off=0):
        md = irview.decoder(self.isa)
        off = 0
        for ins in md.disasm(bytes(data), 0):
            self.ninstr += 1
            getattr(self, "step_" + ("x86" if self.isa in ("x64", "ia32")
                                     else self.isa))(ins, base_off + off)
            off += ins.size
        if off != len(data):
            raise Unsupported(f"undecodable bytes at {off}")

    # ------------------------------------------------------------ x86
    def xreg(self, ins, op):
        name = ins.reg_name(op.reg)
        if name not in X86_PARENT:
            raise Unsupported(f"register {name}")
        return X86_PARENT[name]

    def xget(self, ins, op, off):
        if op.type == capstone.x86.X86_OP_REG:
            p, bits = self.xreg(ins, op)
            v = self.regs[p]
            if isinstance(v, int) and bits == 32:
                v &= 0xFFFFFFFF
            return v
        if op.type == capstone.x86.X86_OP_IMM:
            sym = self.sym_at(off, ins.size)
            if sym is not None:
                return ("addr", sym)
            return op.imm & self.mask
        if op.type == capstone.x86.X86_OP_MEM:
            sym = self.sym_at(off, ins.size)
            if sym is not None:
                return ("load", sym)
            base = ins.reg_name(op.mem.base) if op.mem.base else None
            if base is None or X86_PARENT.get(base, (None,))[0] != "rsp" \
                    or op.mem.index:
                raise Unsupported(f"memory operand {ins.op_str}")
            return self.read((self.sp + op.mem.disp) & self.mask, op.size)
        raise Unsupported("operand")

    def xset(self, ins, op, v):
        p, bits = self.xreg(ins, op)
        if bits == 32 and self.isa == "x64" and isinstance(v, int):
            v &= 0xFFFFFFFF
        if isinstance(v, int):
            v &= self.mask
        self.regs[p] = v

    def step_x86(self, ins, off):
        m = ins.mnemonic
        ops = ins.operands
        w = self.ptr
        if m == "push":
            v = self.xget(ins, ops[0], off)
            if isinstance(v, int) and ops[0].type == \
                    capstone.x86.X86_OP_IMM:
                # sign-extended imm32
                v = ops[0].imm & self.mask
            self.sp = self.sp - w
            self.write(self.sp, v, w)
        elif m == "pop":
            v = self.read(self.sp, w)
            self.sp = self.sp + w
            self.xset(ins, ops[0], v)
        elif m in ("pushfq", "pushfd"):
            self.sp = self.sp - w
            self.write(self.sp, self.flags, w)
        elif m in ("popfq", "popfd"):
            self.flags = self.read(self.sp, w)
            self.sp = self.sp + w
        elif m == "lea":
            mem = ops[1].mem
            sym = self.sym_at(off, ins.size)
            if sym is not None:
                self.xset(ins, ops[0], ("addr", sym))
            else:
                base = ins.reg_name(mem.base)
                bv = self.regs[X86_PARENT[base][0]]
                if not isinstance(bv, int) or mem.index:
                    raise Unsupported("lea operand")
                self.xset(ins, ops[0], bv + mem.disp)
        elif m in ("mov", "movabs"):
            v = self.xget(ins, ops[1], off)
            if ops[0].type == capstone.x86.X86_OP_REG:
                if ops[1].type == capstone.x86.X86_OP_IMM and \
                        isinstance(v, int):
                    v = ops[1].imm
                self.xset(ins, ops[0], v)
            else:
                raise Unsupported("mov to memory")
        elif m in ("and", "add", "sub"):
            a = self.xget(ins, ops[0], off)
            b = ops[1].imm if ops[1].type == capstone.x86.X86_OP_IMM \
                else self.xget(ins, ops[1], off)
            if not isinstance(a, int) or not isinstance(b, int):
                raise Unsupported("arithmetic on symbolic value")
            r = {"and": a & b, "add": a + b, "sub": a - b}[m]
            self.xset(ins, ops[0], r)
            self.flags = ("clobbered", self.ninstr)
            self.flag_writes += 1
        elif m == "call":
            sym = self.sym_at(off, ins.size)
            self.do_call(sym if sym is not None else ("?",))
        elif m == "nop":
            pass
        else:
            raise Unsupported(f"x86 {m} {ins.op_str}")

    def do_call(self, target):
        w = self.ptr
        snap = dict(self.regs)
        if self.isa in ("x64", "ia32"):
            # the call pushes the return address; the callee sees sp there
            pass
        self.calls.append({"target": target, "regs": snap, "sp": self.sp,
                           "flags": self.flags})
        # the callee may clobber caller-saved state; modelled by the harness

    # ------------------------------------------------------------ arm64
    def areg(self, ins, op):
        n = ins.reg_name(op.reg)
        if n in ("sp", "wsp"):
            return "sp", 64
        if n in ("fp", "x29"):
            return "x29", 64
        if n in ("lr", "x30"):
            return "x30", 64
        if n[0] == "x":
            return n, 64
        if n[0] == "w":
            return "x" + n[1:], 32
        raise Unsupported(f"register {n}")

    def aaddr(self, ins, memop):
        base = ins.reg_name(memop.mem.base)
        if base != "sp":
            raise Unsupported("base register " + base)
        if self.sp % 16:
            self.bad("sp-not-16-byte-aligned-at-memory-access",
                     f"{ins.mnemonic} {ins.op_str}: sp0{self.sp - self.sp0:+d}")
        return memop.mem.disp

    def step_arm64(self, ins, off):
        m = ins.mnemonic
        ops = ins.operands
        A = capstone.arm64
        if m in ("stp", "str", "ldp", "ldr"):
            nreg = 2 if m in ("stp", "ldp") else 1
            memop = ops[nreg]
            disp = self.aaddr(ins, memop)
            post = len(ops) > nreg + 1
            if post:
                addr = self.sp
                newsp = self.sp + ops[nreg + 1].imm
            elif ins.writeback:
                addr = self.sp + disp
                newsp = addr
            else:
                addr = self.sp + disp
                newsp = None
            addr &= self.mask
            for k in range(nreg):
                r, bits = self.areg(ins, ops[k])
                if bits != 64:
                    raise Unsupported("32-bit load/store")
                if m in ("stp", "str"):
                    self.write(addr + 8 * k, self.regs[r], 8)
                else:
                    self.regs[r] = self.read(addr + 8 * k, 8)
            if newsp is not None:
                self.sp = newsp
        elif m == "mrs":
            r, _ = self.areg(ins, ops[0])
            if "nzcv" not in ins.op_str:
                raise Unsupported("mrs " + ins.op_str)
            self.regs[r] = self.flags
        elif m == "msr":
            r, _ = self.areg(ins, ops[1])
            if "nzcv" not in ins.op_str:
                raise Unsupported("msr " + ins.op_str)
            self.flags = self.regs[r]
        elif m in ("mov", "movz", "movn"):
            r, bits = self.areg(ins, ops[0])
            if ops[1].type == A.ARM64_OP_IMM:
                v = ops[1].imm
                if m == "movn":
                    v = ~v
                self.regs[r] = v & (self.mask if bits == 64
                                    else 0xFFFFFFFF)
            else:
                s, _ = self.areg(ins, ops[1])
                self.regs[r] = self.regs[s]
        elif m == "movk":
            r, bits = self.areg(ins, ops[0])
            sh = ops[1].shift.value if ops[1].shift.type else 0
            v = self.regs[r]
            if not isinstance(v, int):
                raise Unsupported("movk on symbolic")
            v = (v & ~(0xFFFF << sh)) | ((ops[1].imm & 0xFFFF) << sh)
            self.regs[r] = v & self.mask
        elif m == "adrp":
            r, _ = self.areg(ins, ops[0])
            sym = self.sym_at(off, ins.size)
            self.regs[r] = ("page", sym)
        elif m in ("add", "sub"):
            d, _ = self.areg(ins, ops[0])
            s, _ = self.areg(ins, ops[1])
            sym = self.sym_at(off, ins.size)
            sv = self.regs[s]
            if sym is not None:
                if sv == ("page", sym):
                    self.regs[d] = ("addr", sym)
                else:
                    self.regs[d] = ("mixed",)
            else:
                if ops[2].type != A.ARM64_OP_IMM or not isinstance(sv, int):
                    raise Unsupported("add/sub operand")
                imm = ops[2].imm
                if ops[2].shift.type:
                    imm <<= ops[2].shift.value
                self.regs[d] = (sv + imm if m == "add" else sv - imm) \
                    & self.mask
        elif m == "bl":
            sym = self.sym_at(off, ins.size)
            self.do_call(sym if sym is not None else ("?",))
        elif m == "nop":
            pass
        else:
            raise Unsupported(f"arm64 {m} {ins.op_str}")

    # ------------------------------------------------------------ mips32
    def step_mips32(self, ins, off):
        m = ins.mnemonic
        ops = ins.operands
        if m == "addiu":
            d = ins.reg_name(ops[0].reg)
            s = ins.reg_name(ops[1].reg)
            sv = self.regs[s] if s != "zero" else 0
            if not isinstance(sv, int):
                raise Unsupported("addiu on symbolic")
            self.regs[d] = (sv + ops[2].imm) & self.mask
        elif m in ("sw", "lw"):
            r = ins.reg_name(ops[0].reg)
            base = ins.reg_name(ops[1].mem.base)
            if base != "sp":
                raise Unsupported("base " + base)
            addr = (self.sp + ops[1].mem.disp) & self.mask
            if m == "sw":
                self.write(addr, self.regs[r], 4)
            else:
                self.regs[r] = self.read(addr, 4)
        elif m == "nop":
            pass
        else:
            raise Unsupported(f"mips {m} {ins.op_str}")
