"""
Independent DWARF v4 reference: LEB128, expression-operation codec,
call-frame-instruction codec, constant evaluator and (for C15/C08) a CFI
interpreter.  Written from the DWARF v4 tables (sections 7.6, 7.7.1, 7.23);
shares no code with gtirb_rewriting.

Values are plain tuples:  ("name", operand, ...) ; expression operands inside
CFA instructions are lists of such tuples.
"""

# ---------------------------------------------------------------- LEB128


def uleb(v):
    assert v >= 0
    out = bytearray()
    while True:
        b = v & 0x7F
        v >>= 7
        if v:
            out.append(b | 0x80)
        else:
            out.append(b)
            return bytes(out)


def sleb(v):
    out = bytearray()
    while True:
        b = v & 0x7F
        v >>= 7
        done = (v == 0 and not (b & 0x40)) or (v == -1 and (b & 0x40))
        if done:
            out.append(b)
            return bytes(out)
        out.append(b | 0x80)


class Truncated(Exception):
    pass


class BadOpcode(Exception):
    pass


class Reader:
    def __init__(self, data, pos=0, end=None):
        self.data = data
        self.pos = pos
        self.end = len(data) if end is None else end

    def byte(self):
        if self.pos >= self.end:
            raise Truncated()
        b = self.data[self.pos]
        self.pos += 1
        return b

    def take(self, n):
        if self.pos + n > self.end:
            raise Truncated()
        b = self.data[self.pos:self.pos + n]
        self.pos += n
        return b

    def uleb(self):
        v = 0
        shift = 0
        while True:
            b = self.byte()
            v |= (b & 0x7F) << shift
            shift += 7
            if not b & 0x80:
                return v

    def sleb(self):
        v = 0
        shift = 0
        while True:
            b = self.byte()
            v |= (b & 0x7F) << shift
            shift += 7
            if not b & 0x80:
                if b & 0x40:
                    v -= 1 << shift
                return v

    def int(self, n, order, signed):
        return int.from_bytes(self.take(n), order, signed=signed)


# ------------------------------------------------------ expression operations
# name -> (opcode, operand kinds)
# kinds: u1 s1 u2 s2 u4 s4 u8 s8 uleb sleb addr ; fused ops handled apart
OPS = {
    "addr": (0x03, ["addr"]),
    "deref": (0x06, []),
    "const1u": (0x08, ["u1"]),
    "const1s": (0x09, ["s1"]),
    "const2u": (0x0A, ["u2"]),
    "const2s": (0x0B, ["s2"]),
    "const4u": (0x0C, ["u4"]),
    "const4s": (0x0D, ["s4"]),
    "const8u": (0x0E, ["u8"]),
    "const8s": (0x0F, ["s8"]),
    "constu": (0x10, ["uleb"]),
    "consts": (0x11, ["sleb"]),
    "dup": (0x12, []),
    "drop": (0x13, []),
    "over": (0x14, []),
    "pick": (0x15, ["u1"]),
    "swap": (0x16, []),
    "rot": (0x17, []),
    "xderef": (0x18, []),
    "abs": (0x19, []),
    "and": (0x1A, []),
    "div": (0x1B, []),
    "minus": (0x1C, []),
    "mod": (0x1D, []),
    "mul": (0x1E, []),
    "neg": (0x1F, []),
    "not": (0x20, []),
    "or": (0x21, []),
    "plus": (0x22, []),
    "plus_uconst": (0x23, ["uleb"]),
    "shl": (0x24, []),
    "shr": (0x25, []),
    "shra": (0x26, []),
    "xor": (0x27, []),
    "bra": (0x28, ["s2"]),
    "eq": (0x29, []),
    "ge": (0x2A, []),
    "gt": (0x2B, []),
    "le": (0x2C, []),
    "lt": (0x2D, []),
    "ne": (0x2E, []),
    "skip": (0x2F, ["s2"]),
    "regx": (0x90, ["uleb"]),
    "bregx": (0x92, ["uleb", "sleb"]),
    "deref_size": (0x94, ["u1"]),
}
# fused: name -> (base opcode, count, trailing operand kinds)
FUSED_OPS = {
    "lit": (0x30, 32, []),
    "reg": (0x50, 32, []),
    "breg": (0x70, 32, ["sleb"]),
}
OP_BY_CODE = {code: (name, kinds) for name, (code, kinds) in OPS.items()}
for _n, (_b, _c, _k) in FUSED_OPS.items():
    for _i in range(_c):
        OP_BY_CODE[_b + _i] = (_n, _k)

FIXED = {"u1": (1, False), "s1": (1, True), "u2": (2, False),
         "s2": (2, True), "u4": (4, False), "s4": (4, True),
         "u8": (8, False), "s8": (8, True)}


def kind_range(kind, ptr):
    """(lo, hi) inclusive, None = unbounded."""
    if kind in FIXED:
        n, signed = FIXED[kind]
        if signed:
            return -(1 << (8 * n - 1)), (1 << (8 * n - 1)) - 1
        return 0, (1 << (8 * n)) - 1
    if kind == "uleb":
        return 0, None
    if kind == "sleb":
        return None, None
    if kind == "addr":
        return 0, (1 << (8 * ptr)) - 1
    if kind == "fused32":
        return 0, 31
    if kind == "fused64":
        return 0, 63
    raise KeyError(kind)


def enc_operand(kind, v, order, ptr):
    if kind in FIXED:
        n, signed = FIXED[kind]
        return v.to_bytes(n, order, signed=signed)
    if kind == "uleb":
        return uleb(v)
    if kind == "sleb":
        return sleb(v)
    if kind == "addr":
        return v.to_bytes(ptr, order, signed=False)
    if kind == "expr":
        body = b"".join(encode_op(op, order, ptr) for op in v)
        return uleb(len(body)) + body
    raise KeyError(kind)


def dec_operand(kind, rd, order, ptr):
    if kind in FIXED:
        n, signed = FIXED[kind]
        return rd.int(n, order, signed)
    if kind == "uleb":
        return rd.uleb()
    if kind == "sleb":
        return rd.sleb()
    if kind == "addr":
        return rd.int(ptr, order, False)
    if kind == "expr":
        n = rd.uleb()
        if rd.pos + n > rd.end:
            raise Truncated()
        sub = Reader(rd.data, rd.pos, rd.pos + n)
        ops = []
        while sub.pos < sub.end:
            ops.append(decode_op(sub, order, ptr))
        rd.pos += n
        return ops
    raise KeyError(kind)


def encode_op(op, order, ptr):
    name = op[0]
    if name in FUSED_OPS:
        base, count, kinds = FUSED_OPS[name]
        assert 0 <= op[1] < count
        out = bytes([base + op[1]])
        args = op[2:]
    else:
        code, kinds = OPS[name]
        out = bytes([code])
        args = op[1:]
    assert len(args) == len(kinds), op
    for k, v in zip(kinds, args):
        out += enc_operand(k, v, order, ptr)
    return out


def decode_op(rd, order, ptr):
    b = rd.byte()
    if b not in OP_BY_CODE:
        raise BadOpcode(b)
    name, kinds = OP_BY_CODE[b]
    vals = []
    if name in FUSED_OPS:
        vals.append(b - FUSED_OPS[name][0])
    for k in kinds:
        vals.append(dec_operand(k, rd, order, ptr))
    return (name, *vals)


def op_operand_kinds(name):
    if name in FUSED_OPS:
        return ["fused32"] + FUSED_OPS[name][2]
    return OPS[name][1]


# ------------------------------------------------------ call frame instructions
CFAS = {
    "nop": (0x00, []),
    "offset_extended": (0x05, ["uleb", "uleb"]),
    "restore_extended": (0x06, ["uleb"]),
    "undefined": (0x07, ["uleb"]),
    "same_value": (0x08, ["uleb"]),
    "register": (0x09, ["uleb", "uleb"]),
    "remember_state": (0x0A, []),
    "restore_state": (0x0B, []),
    "def_cfa": (0x0C, ["uleb", "uleb"]),
    "def_cfa_register": (0x0D, ["uleb"]),
    "def_cfa_offset": (0x0E, ["uleb"]),
    "def_cfa_expression": (0x0F, ["expr"]),
    "expression": (0x10, ["uleb", "expr"]),
    "offset_extended_sf": (0x11, ["uleb", "sleb"]),
    "def_cfa_sf": (0x12, ["uleb", "sleb"]),
    "def_cfa_offset_sf": (0x13, ["sleb"]),
    "val_offset": (0x14, ["uleb", "uleb"]),
    "val_offset_sf": (0x15, ["uleb", "sleb"]),
    "val_expression": (0x16, ["uleb", "expr"]),
}
FUSED_CFAS = {
    "offset": (0x80, 64, ["uleb"]),
    "restore": (0xC0, 64, []),
}
CFA_BY_CODE = {code: (name, kinds) for name, (code, kinds) in CFAS.items()}
for _n, (_b, _c, _k) in FUSED_CFAS.items():
    for _i in range(_c):
        CFA_BY_CODE[_b + _i] = (_n, _k)


def cfa_operand_kinds(name):
    if name in FUSED_CFAS:
        return ["fused64"] + FUSED_CFAS[name][2]
    return CFAS[name][1]


def encode_cfa(inst, order, ptr):
    name = inst[0]
    if name in FUSED_CFAS:
        base, count, kinds = FUSED_CFAS[name]
        assert 0 <= inst[1] < count
        out = bytes([base + inst[1]])
        args = inst[2:]
    else:
        code, kinds = CFAS[name]
        out = bytes([code])
        args = inst[1:]
    assert len(args) == len(kinds), inst
    for k, v in zip(kinds, args):
        out += enc_operand(k, v, order, ptr)
    return out


def decode_cfa(rd, order, ptr):
    b = rd.byte()
    if b not in CFA_BY_CODE:
        raise BadOpcode(b)
    name, kinds = CFA_BY_CODE[b]
    vals = []
    if name in FUSED_CFAS:
        vals.append(b - FUSED_CFAS[name][0])
    for k in kinds:
        vals.append(dec_operand(k, rd, order, ptr))
    return (name, *vals)


def decode_cfa_all(data, order, ptr):
    rd = Reader(data)
    out = []
    while rd.pos < rd.end:
        out.append(decode_cfa(rd, order, ptr))
    return out


# directive form -> DW_CFA bytes (GAS semantics, data alignment not needed for
# the directives the library emits in directive form)
def directive_to_bytes(name, args, order, ptr):
    if name == ".cfi_escape":
        return bytes(args)
    table = {
        ".cfi_def_cfa": "def_cfa",
        ".cfi_def_cfa_register": "def_cfa_register",
        ".cfi_undefined": "undefined",
        ".cfi_same_value": "same_value",
        ".cfi_register": "register",
        ".cfi_restore": "restore",
        ".cfi_remember_state": "remember_state",
        ".cfi_restore_state": "restore_state",
    }
    if name not in table:
        raise KeyError(name)
    return encode_cfa((table[name], *args), order, ptr)


# ------------------------------------------------------ constant evaluation
CONST_OPS = ["lit", "const1u", "const1s", "const2u", "const2s", "const4u",
             "const4s", "const8u", "const8s", "constu", "consts"]


def const_value(op):
    """Value pushed by a constant-pushing op."""
    assert op[0] in CONST_OPS, op
    return op[1]


def shortest_const_len(v):
    """Length of the shortest constant-pushing encoding for v (no DW_OP_addr)."""
    best = None
    cands = []
    if 0 <= v <= 31:
        cands.append(1)
    for name in CONST_OPS[1:9]:
        lo, hi = kind_range(OPS[name][1][0], 8)
        if lo <= v <= hi:
            cands.append(1 + FIXED[OPS[name][1][0]][0])
    if v >= 0:
        cands.append(1 + len(uleb(v)))
    cands.append(1 + len(sleb(v)))
    for c in cands:
        best = c if best is None or c < best else best
    return best


# ------------------------------------------------------ CFI interpreter
class CfiError(Exception):
    """The directive sequence is ill-formed."""


class CfiUnsupported(Exception):
    """Outside the subset the reference (and the library) claim to support."""


class RefState:
    """Reference procedure state; plain data, deep-copied at snapshots."""

    def __init__(self, return_column):
        self.return_column = return_column
        self.personality = None  # (encoding, symbol-name)
        self.lsda = None
        self.cfa = None  # ("regoff", r, o) | ("expr", ops)
        self.regs = {}   # r -> rule tuple
        self.init_cfa = None
        self.init_regs = {}
        self.stack = []  # list of (cfa, regs)

    def snapshot(self):
        return {
            "return_column": self.return_column,
            "personality": self.personality,
            "lsda": self.lsda,
            "cfa": self.cfa,
            "regs": dict(self.regs),
            "init_cfa": self.init_cfa,
            "init_regs": dict(self.init_regs),
            "stack": [(c, dict(r)) for c, r in self.stack],
        }


ARITY = {
    ".cfi_startproc": 0, ".cfi_endproc": 0, ".cfi_personality": 1,
    ".cfi_lsda": 1, ".cfi_return_column": 1, ".cfi_def_cfa": 2,
    ".cfi_def_cfa_register": 1, ".cfi_def_cfa_offset": 1,
    ".cfi_adjust_cfa_offset": 1, ".cfi_undefined": 1, ".cfi_same_value": 1,
    ".cfi_register": 2, ".cfi_restore": 1, ".cfi_val_offset": 2,
    ".cfi_offset": 2, ".cfi_rel_offset": 2, ".cfi_remember_state": 0,
    ".cfi_restore_state": 0,
}


def interpret(locations, return_column, order, ptr):
    """
    locations: list of (loc_key, [ (name, args, symname_or_None) ... ]) in
    address order.  Yields (loc_key, snapshot|None) after each location, or
    raises CfiError / CfiUnsupported.
    """
    st = None
    for key, directives in locations:
        started = False
        for name, args, sym in directives:
            if name == ".cfi_startproc":
                if st is not None:
                    raise CfiError("nested startproc")
                if return_column is None:
                    # a target without a DWARF return column (PE): procedures
                    # cannot be evaluated, everything in front still can
                    raise CfiUnsupported("no return column")
                st = RefState(return_column)
                started = True
                continue
            if st is None:
                raise CfiError("outside procedure")
            if name in ARITY and name != ".cfi_escape" and \
                    len(args) != ARITY[name]:
                raise CfiError("arity")
            if name == ".cfi_endproc":
                st = None
            elif name in (".cfi_personality", ".cfi_lsda"):
                enc = args[0]
                if enc == 0xFF:
                    val = None
                else:
                    if sym is None:
                        raise CfiError("missing symbol")
                    val = (enc, sym)
                if name == ".cfi_personality":
                    st.personality = val
                else:
                    st.lsda = val
            elif name == ".cfi_return_column":
                st.return_column = args[0]
            elif name == ".cfi_def_cfa":
                st.cfa = ("regoff", args[0], args[1])
            elif name == ".cfi_def_cfa_register":
                if not st.cfa or st.cfa[0] != "regoff":
                    raise CfiError("cfa not reg+off")
                st.cfa = ("regoff", args[0], st.cfa[2])
            elif name == ".cfi_def_cfa_offset":
                if not st.cfa or st.cfa[0] != "regoff":
                    raise CfiError("cfa not reg+off")
                st.cfa = ("regoff", st.cfa[1], args[0])
            elif name == ".cfi_adjust_cfa_offset":
                if not st.cfa or st.cfa[0] != "regoff":
                    raise CfiError("cfa not reg+off")
                st.cfa = ("regoff", st.cfa[1], st.cfa[2] + args[0])
            elif name == ".cfi_undefined":
                st.regs[args[0]] = ("undefined",)
            elif name == ".cfi_same_value":
                st.regs[args[0]] = ("same",)
            elif name == ".cfi_register":
                st.regs[args[0]] = ("reg", args[1])
            elif name == ".cfi_restore":
                if args[0] in st.init_regs:
                    st.regs[args[0]] = st.init_regs[args[0]]
                else:
                    st.regs.pop(args[0], None)
            elif name == ".cfi_val_offset":
                st.regs[args[0]] = ("valoff", args[1])
            elif name == ".cfi_offset":
                st.regs[args[0]] = ("off", args[1])
            elif name == ".cfi_rel_offset":
                cur = st.regs.get(args[0])
                if not cur or cur[0] != "off":
                    raise CfiError("rel_offset without offset rule")
                st.regs[args[0]] = ("off", cur[1] + args[1])
            elif name == ".cfi_remember_state":
                st.stack.append((st.cfa, dict(st.regs)))
            elif name == ".cfi_restore_state":
                if not st.stack:
                    raise CfiError("restore_state on empty stack")
                st.cfa, st.regs = st.stack.pop()
            elif name == ".cfi_escape":
                try:
                    insts = decode_cfa_all(bytes(args), order, ptr)
                except (Truncated, BadOpcode, ValueError) as e:
                    raise CfiError(f"bad escape: {e!r}")
                for inst in insts:
                    if inst[0] == "def_cfa_expression":
                        st.cfa = ("expr", tuple(inst[1]))
                    elif inst[0] == "expression":
                        st.regs[inst[1]] = ("atexpr", tuple(inst[2]))
                    elif inst[0] == "val_expression":
                        st.regs[inst[1]] = ("isexpr", tuple(inst[2]))
                    elif inst[0] == "nop":
                        pass
                    else:
                        raise CfiUnsupported(inst[0])
            else:
                raise CfiUnsupported(name)
        if st is not None and started:
            st.init_cfa = st.cfa
            st.init_regs = dict(st.regs)
        yield key, (st.snapshot() if st is not None else None)
