"""Child process of the C11 determinism check: rewrites every scenario of a
batch under one configuration and reports canonical-dump hashes."""
import hashlib
import json
import random
import sys
import uuid


def main(batch_path, cfg_path, out_path):
    from . import canon, rewrite
    cfg = json.load(open(cfg_path))
    batch = json.load(open(batch_path))
    rng = random.Random(cfg["uuid_seed"])
    uuid.uuid4 = lambda: uuid.UUID(int=rng.getrandbits(128), version=4)
    junk = []
    out = []
    cases = list(enumerate(batch["cases"]))
    if cfg.get("repeat"):
        # the same scenarios once more in this process: whatever the first
        # pass left behind in process-wide objects (ABI singletons, module
        # level caches) must not show in the second
        cases = cases + cases
    for idx, case in cases:
        # perturb object addresses (gtirb nodes hash by identity)
        prng = random.Random(f"{cfg['alloc_seed']}:{idx}")
        junk.append([object() for _ in range(prng.randrange(0, 3000))])
        if prng.random() < 0.5 and junk:
            junk.pop(prng.randrange(len(junk)))
        case = dict(case)
        order = list(range(len(case["edits"])))
        if cfg.get("permute"):
            order = permuted(case, random.Random(
                f"{cfg['permute']}:{idx}"))
        res = {"exc": None}
        try:
            def before(r, case=case, idx=idx):
                rts = list(case.get("retargets", []))
                if cfg.get("permute"):
                    random.Random(f"{cfg['permute']}:rt:{idx}").shuffle(rts)
                for a, b in rts:
                    sa = next(s for s in r.bu.module.symbols if s.name == a)
                    sb = next(s for s in r.bu.module.symbols if s.name == b)
                    r.ctx.retarget_symbol_uses(sa, sb)
            r = rewrite.run(case, seed=cfg["uuid_seed"],
                            register_order=order, before_apply=before)
            if r.exception is None and case.get("second_rewrite"):
                # the rewritten module is rewritten once more by a new
                # context (patch numbering starts again): same labels again
                second_rewrite(case, r.bu)
            if r.exception is not None:
                res["exc"] = type(r.exception).__name__
            else:
                full = canon.dumps(r.bu.ir, addresses=False)
                res["full"] = hashlib.sha256(full.encode()).hexdigest()
                addrs = sorted(
                    (s.name, bi.address, bi.size)
                    for s in r.bu.module.sections
                    for bi in s.byte_intervals)
                res["addr"] = hashlib.sha256(
                    json.dumps(addrs).encode()).hexdigest()
                if cfg.get("keep_dump"):
                    res["dump"] = full
        except Exception as exc:  # noqa
            res["exc"] = "harness:" + type(exc).__name__ + ":" + str(exc)[:100]
        out.append(res)
    json.dump(out, open(out_path, "w"))


def second_rewrite(case, bu):
    """insert, with a fresh RewritingContext, a patch that defines the same
    temporary labels as the first rewrite's patches, at the start of the
    code block that the alphabetically first code symbol names"""
    import gtirb
    import gtirb_functions
    from gtirb_rewriting import RewritingContext
    from . import rewrite, vocab
    m = bu.module
    syms = sorted((s for s in m.symbols
                   if isinstance(s.referent, gtirb.CodeBlock)
                   and s.referent.size and not s.at_end),
                  key=lambda s: s.name)
    if not syms:
        return
    isa = case["isa"]
    names = sorted({ln["l"] for e in case["edits"]
                    for ln in e.get("p", {}).get("lines", [])
                    if ln.get("temp") and "l" in ln})[:3] or [".Lpt0_a"]
    lines = []
    for nme in names:
        lines += [{"l": nme}, {"k": "nop"}]
    if "jne" in vocab.VOCAB[isa]:
        lines.append({"k": "jne", "t": names[0]})
    rec = rewrite.Recorder()
    have_fn = "functionEntries" in m.aux_data and \
        "functionBlocks" in m.aux_data
    functions = gtirb_functions.Function.build_functions(m) \
        if have_fn else []
    ctx = RewritingContext(m, functions)
    ctx.insert_at(syms[0].referent, 0,
                  rewrite.make_patch(isa, {"lines": lines}, 2000, rec))
    ctx.apply()


def permuted(case, rng):
    """a registration order that keeps the relative order of modifications
    targeting the same (block, offset)"""
    n = len(case["edits"])
    keys = []
    for e in case["edits"]:
        keys.append(("fn", e["f"]) if e["op"] == "delfn"
                    else (e["b"], e["i"]))
    order = list(range(n))
    rng.shuffle(order)
    # restore relative order inside each key group
    groups = {}
    for pos, i in enumerate(order):
        groups.setdefault(keys[i], []).append(pos)
    res = list(order)
    for k, positions in groups.items():
        members = sorted(order[p] for p in positions)
        for p, mbr in zip(sorted(positions), members):
            res[p] = mbr
    # modifications in the same block at different offsets may be registered
    # in any order; same (block, offset) keeps registration order
    return res


if __name__ == "__main__":
    main(*sys.argv[1:4])
