"""
Oracles comparing the edited listing model with the flattened output module.
Each returns a list of {"key": mechanism-signature, "msg": text} plus counters.
"""
import traceback

from . import common, irbuild, irview, rewrite, vocab


# ------------------------------------------------------------------ helpers
def edit_context(case):
    """per block: summary of what edits touch it (for mechanism keys)"""
    ctx = {}
    for e in case["edits"]:
        if e["op"] == "delfn":
            f = next(f for f in case["funcs"] if f["name"] == e["f"])
            for b in f["blocks"]:
                ctx.setdefault(b, set()).add("delfn")
            continue
        b = e["b"]
        tags = ctx.setdefault(b, set())
        blk = None
        for s in case["secs"]:
            for iv in s["ivs"]:
                for bb in iv["blocks"]:
                    if bb["id"] == b:
                        blk = bb
        n = len(blk["items"])
        if e["op"] == "ins":
            tags.add("ins@0" if e["i"] == 0 else
                     "ins@end" if e["i"] == n else "ins@mid")
        elif e["op"] == "rep":
            tags.add("rep-all" if e["n"] == n else
                     "rep-head" if e["i"] == 0 else
                     "rep-tail" if e["i"] + e["n"] == n else "rep-mid")
        else:
            if e.get("proxy"):
                tags.add("del-proxy")
            elif e["n"] == n and n:
                tags.add("del-whole")
            elif e["i"] == 0:
                tags.add("del-head")
            elif e["i"] + e["n"] == n:
                tags.add("del-tail")
            else:
                tags.add("del-mid")
    return ctx


def ctx_tag(ectx, bid):
    tags = ectx.get(bid)
    return "+".join(sorted(tags)) if tags else "unedited"


def classify_apply_exception(case, exc):
    """signature of an exception that came out of apply()"""
    tb = traceback.extract_tb(exc.__traceback__)
    frames = [f for f in tb if f.filename.startswith(common.REPO_SRC)]
    where = "?"
    if frames:
        f = frames[-1]
        where = f"{f.filename.rsplit('/', 1)[-1]}:{f.name}"
    name = type(exc).__name__
    if name == "AssertionError" and where == "rewriting.py:_apply_modifications":
        # loud refusal: a modification registered at/after the end of a
        # deletion that consumed the rest of the block
        per = {}
        for e in case["edits"]:
            if e["op"] != "delfn":
                per.setdefault(e["b"], []).append(e)
        for b, es in per.items():
            n = None
            for s in case["secs"]:
                for iv in s["ivs"]:
                    for bb in iv["blocks"]:
                        if bb["id"] == b:
                            n = len(bb["items"])
            dels = [e for e in es if e["op"] == "del"
                    and e["i"] + e["n"] == n]
            later = [e for e in es if e["op"] in ("ins", "rep")
                     and e["i"] == n] + [
                e for e in es if e["op"] == "del" and e["n"] == 0
                and e["i"] == n]
            if dels and later:
                return "refused", "refused:mod-after-block-end-deletion"
    if name == "UnsupportedAssemblyError" and \
            "cannot be data blocks" in str(exc):
        # loud refusal: a patch branches to / calls a label that, in the
        # edited listing, no longer stands in front of code
        lst = rewrite.expected(case)
        lst.layout()
        follows_code = {}
        for si in range(len(lst.secs)):
            seq = [t for ivs in [lst.secs[si]] for toks in ivs for t in toks]
            for k, t in enumerate(seq):
                if t.t == "L":
                    nxt = next((u for u in seq[k + 1:] if u.t in "ID"), None)
                    follows_code[t.name] = nxt is not None and nxt.t == "I"
        for e in case["edits"]:
            for ln in e.get("p", {}).get("lines", []):
                if ln.get("k") in ("jmp", "jne", "call") and \
                        follows_code.get(ln.get("t")) is False:
                    return "refused", "refused:branch-target-not-code"
    if name == "AmbiguousIRError" and case.get("retargets") and \
            where.startswith("retarget.py:"):
        # loud refusal: the label the uses are redirected to ended up in
        # front of data (its block was deleted in the same rewrite)
        return "refused", "refused:retarget-control-flow-into-data"
    if name == "NotImplementedError" and case.get("label_only_tail") and \
            "zero-sized block with a label" in str(exc):
        # loud refusal: a patch puts nothing but a label into another section
        return "refused", "refused:label-only-contents-for-another-section"
    if name == "PaddingError" and len(vocab.NOP[case["isa"]]) > 1:
        # loud refusal: an alignment requirement that whole nops cannot
        # establish (the ISA's nop is longer than the gap)
        return "refused", "refused:padding-not-a-multiple-of-the-nop"
    if name == "LayoutError" and zero_sized_block_at_interval_edge(case):
        # (F54) gtirb_layout cannot place an interval that starts (ends) with
        # a zero-sized block next to a block it is linked with by a
        # fallthrough edge
        return "raised", (f"apply-raises:{name}@{where}"
                          ":zero-sized-block-at-interval-edge")
    if name == "AssertionError" and \
            where == "edit.py:_cleanup_modified_blocks":
        return "raised", f"apply-raises:{name}@{where}" + cleanup_context(
            case)
    return "raised", f"apply-raises:{name}@{where}"


def zero_sized_block_at_interval_edge(case):
    """does the rewrite leave a zero-sized input block first or last in a
    byte interval (every block in front of / behind it wholly deleted)?"""
    gone = set()
    for e in case["edits"]:
        if e["op"] == "delfn":
            gone |= set(next(f["blocks"] for f in case["funcs"]
                             if f["name"] == e["f"]))
    size = {}
    for s in case["secs"]:
        for iv in s["ivs"]:
            for b in iv["blocks"]:
                size[b["id"]] = len(b["items"])
    for e in case["edits"]:
        if e["op"] == "del" and e["i"] == 0 and e["n"] >= size[e["b"]] > 0:
            gone.add(e["b"])
    for s in case["secs"]:
        for iv in s["ivs"]:
            bs = iv["blocks"]
            for k, b in enumerate(bs):
                if b["code"] and not b["items"]:
                    if all(x["id"] in gone for x in bs[:k]) or \
                            all(x["id"] in gone for x in bs[k + 1:]):
                        return True
    return False


def cleanup_context(case):
    """Is there a patch placed at the very end of a code block that had no
    code behind it in the input, and which needs a continuation block: its
    last instruction is a call / conditional jump (falls through AND has
    other edges), or it ends in a label that the patch itself branches to?
    That is the one situation in which the library is known to trip over its
    own empty continuation block."""
    from .listing import Listing
    try:
        l0 = Listing(case)
        l0.layout()
    except Exception:  # noqa
        return ":context-unknown"
    follows = {}
    for si, sec in enumerate(case["secs"]):
        flat = []
        for ii, iv in enumerate(sec["ivs"]):
            brk = ii > 0 and (iv.get("gap", 0) or iv.get("lead"))
            for blk in iv["blocks"]:
                flat.append((blk, brk))
                brk = False
        for k, (blk, _) in enumerate(flat):
            nxt = flat[k + 1] if k + 1 < len(flat) else None
            follows[blk["id"]] = bool(
                nxt and not nxt[1] and nxt[0]["code"] and nxt[0]["items"])
    isa = case["isa"]
    for e in case["edits"]:
        if e["op"] not in ("ins", "rep") or "lines" not in e.get("p", {}):
            continue
        blk = l0.block_info[e["b"]]["blk"]
        if not blk["code"] or follows.get(e["b"]):
            continue
        if e["i"] + e.get("n", 0) != len(blk["items"]):
            continue
        lines = e["p"]["lines"]
        for k, ln in enumerate(lines):
            if "sec" in ln:       # what follows goes to another section
                lines = lines[:k]
                break
        instrs = [ln for ln in lines if "k" in ln and ln["k"] != "bytes"]
        if not instrs:
            continue
        last = vocab.VOCAB[isa][instrs[-1]["k"]]["kind"]
        trailing = []
        for ln in reversed(lines):
            if "l" in ln:
                trailing.append(ln["l"])
            elif "k" in ln:
                break
        targeted = any(ln.get("t") in trailing for ln in lines if "k" in ln)
        if last in ("call", "jcc", "icall") or targeted:
            return ":patch-needing-continuation-at-code-end"
    return ""


# ------------------------------------------------------------------ C01
def check_bytes(run, lst, ob, exp_bytes):
    viol = []
    ctr = {"intervals_compared": 0, "bytes_compared": 0,
           "markers_checked": 0}
    isa = run.case["isa"]
    for si, row in enumerate(exp_bytes):
        for ii, exp in enumerate(row):
            got = ob.bytes[si][ii]
            ctr["intervals_compared"] += 1
            ctr["bytes_compared"] += len(exp)
            if got == exp:
                continue
            # locate the first difference and the token expected there
            k = 0
            while k < min(len(got), len(exp)) and got[k] == exp[k]:
                k += 1
            tok = None
            for t in lst.secs[si][ii]:
                if t.t in "ID" and t.ivpos <= k < t.ivpos + max(t.size, 1):
                    tok = t
            origin = "end" if tok is None else (
                "patch" if tok.patch is not None else "orig")
            kind = ("shorter" if len(got) < len(exp) else
                    "longer" if len(got) > len(exp) else "content")
            viol.append({
                "key": f"bytes:{kind}:at-{origin}",
                "msg": f"sec {si} iv {ii}: expected {exp.hex()} got "
                       f"{got.hex()} first diff at {k}"})
    # extra intervals must be empty in this workload (no other-section data)
    exp_extra = getattr(lst, "expected_extra", {})
    for si, row in enumerate(ob.extra):
        want = sorted(exp_extra.get(ob.sec_names[si], []))
        if sorted(row) != want:
            viol.append({"key": "bytes:unexpected-new-interval",
                         "msg": f"section {ob.sec_names[si]}: {row} != {want}"
                         })
    # exactly-once markers
    allbytes = b"\0\0\0\0".join(b for row in ob.bytes for b in row)
    for si, ii, t in lst.all_tokens():
        if t.t == "I" and t.key == "mark" and t.patch is not None:
            ctr["markers_checked"] += 1
            c = allbytes.count(t.data)
            if c != 1:
                viol.append({"key": f"bytes:marker-count-{min(c, 2)}",
                             "msg": f"marker {t.data.hex()} x{c}"})
    return viol, ctr


# ------------------------------------------------------------------ C02
def final_label_names(run, lst):
    """model label name -> module symbol name (temp labels get a suffix)"""
    names = {}
    for a in run.rec.assembled:
        if a["summary"]:
            for (name, sec, off, at_end) in a["summary"]["symbols"]:
                names.setdefault(name, name)
    return names


def check_symbols(run, lst, ob):
    viol = []
    ctr = {"labels_compared": 0, "proxy_labels_compared": 0,
           "dontcare5": 0}
    case = run.case
    ectx = edit_context(case)
    labels = lst.label_positions()
    orig_extern = set(case.get("externs", []))
    # neighbours deleted with proxy (don't-care 5); a zero-sized block of a
    # function removed with delete_function is among them
    proxy_blocks = set(lst.proxy_deleted)
    for e in case["edits"]:
        if e.get("op") == "delfn":
            for bid in next(f["blocks"] for f in case["funcs"]
                            if f["name"] == e["f"]):
                if not lst.block_info[bid]["blk"]["items"]:
                    proxy_blocks.add(bid)
    order = {}   # bid -> (sec, index in section order)
    for si, sec in enumerate(case["secs"]):
        k = 0
        for iv in sec["ivs"]:
            for b in iv["blocks"]:
                order[b["id"]] = (si, k)
                k += 1
    by_order = {v: k for k, v in order.items()}

    def slid_onto_proxy(tok):
        """label of a wholly deleted block followed (through further wholly
        deleted or proxy-deleted blocks) by a proxy-deleted block: the label
        may legitimately end on any of those proxies"""
        if tok.bid is None:
            return None
        si, k = order[tok.bid]
        if tok.bid not in lst.deleted_blocks:
            # a zero-sized input block goes away together with a wholly
            # deleted block right behind it: its labels slide like that
            # block's
            if lst.block_info[tok.bid]["blk"]["items"]:
                return None
            # ... which may stand anywhere in the chain of deleted blocks
            # behind it (the blocks in between are gone by then); a chain of
            # proxy deletions only leaves the zero-sized block where it is
            j = k + 1
            plain = False
            while True:
                nb = by_order.get((si, j))
                if nb is None:
                    break
                if nb in lst.deleted_blocks:
                    plain = plain or nb not in proxy_blocks
                elif lst.block_info[nb]["blk"]["items"]:
                    break
                j += 1
            if not plain:
                return None
        found = None
        while True:
            k += 1
            nb = by_order.get((si, k))
            if nb is None:
                return found
            if nb in proxy_blocks:
                found = nb
                continue
            if nb in lst.deleted_blocks:
                continue
            if not lst.block_info[nb]["blk"]["items"]:
                # a zero-sized input block in the chain goes away with the
                # deleted block behind it
                continue
            return found

    # geometry helpers for mechanism keys
    tok_seq = {}
    for si, ii, t in lst.all_tokens():
        tok_seq.setdefault(si, []).append(t)

    def relation(tok, exp, got):
        if tok is None:
            return "other"
        seq = tok_seq[exp[1]]
        idx = next(k for k, t in enumerate(seq) if t is tok)
        if got[0] == "proxy":
            # is the next original block (after this label) proxy-deleted?
            nxt = None
            for t in seq[idx + 1:]:
                if t.t == "B":
                    if t.bid in proxy_blocks:
                        nxt = t.bid
                        break
                    if t.bid in lst.deleted_blocks:
                        continue
                    if not lst.block_info[t.bid]["blk"]["items"]:
                        continue    # zero-sized input block: transparent
                    nxt = t.bid
                    break
                if t.t in "ID" and t.patch is None and not t.uncovered:
                    break
            if nxt in proxy_blocks:
                return "on-proxy-of-following-deleted-block"
            return "on-proxy"
        if got[0] != "pos":
            return got[0]
        if got[1] != exp[1]:
            return "other-section"
        if tok.bid is not None and tok.at_end:
            # start of the owning block's region
            j = idx
            while j > 0 and not (seq[j].t == "B" and seq[j].bid == tok.bid):
                j -= 1
            first = next((t for t in seq[j:] if t.t in "ID"), None)
            if first is not None and first.pos <= got[2] < exp[2]:
                return "end-label-moved-into-own-block"
        if got[2] > exp[2]:
            between = [t for t in seq[idx + 1:]
                       if t.t in "ID" and t.pos < got[2]]
            if between and all(t.patch is not None for t in between) and \
                    sum(t.size for t in between) == got[2] - exp[2]:
                return "after-later-insertion"
            return "later"
        return "earlier"

    label_toks = {}
    for si, ii, t in lst.all_tokens():
        if t.t == "L":
            label_toks[t.name] = t
    for blob in lst.other:
        for nme, off, t in blob["labels"]:
            label_toks[nme] = t
    proxies_seen = {}
    for name, exp in labels.items():
        got = ob.symbols.get(name)
        tok = label_toks.get(name)
        where = "start"
        if tok is not None and tok.patch is not None:
            seq = tok_seq[exp[1]] if exp[0] == "pos" else []
            k = next((k for k, t in enumerate(seq) if t is tok), None)
            rest = seq[k + 1:] if k is not None else []
            trailing = True
            for t in rest:
                if t.patch != tok.patch:
                    break
                if t.t in "ID":
                    trailing = False
                    break
            where = "patch-trailing" if trailing else "patch-inner"
        elif tok is not None and tok.at_end:
            where = "end"
        tag = ctx_tag(ectx, tok.bid) if tok is not None and \
            tok.bid is not None else ("patchlabel" if tok is not None
                                      else "proxydel")
        if got is None and tok is not None and tok.patch is not None \
                and not tok.pglobal:
            # temporary label: final name carries the patch suffix
            cands = [n for n in ob.symbols if n.startswith(name + "_")]
            if len(cands) == 1:
                got = ob.symbols[cands[0]]
        if not got:
            viol.append({"key": f"symbol-missing:{where}:{tag}",
                         "msg": f"{name} not in module"})
            continue
        if len(got) != 1:
            viol.append({"key": "symbol-duplicated-name",
                         "msg": f"{name}: {got}"})
            continue
        got = got[0]
        if exp[0] == "other":
            # label a patch defined in another section: it must stand in a
            # NEW interval of that section, in front of the bytes that
            # followed it in the patch
            ctr["other_section_labels_compared"] = ctr.get(
                "other_section_labels_compared", 0) + 1
            _, blob, off = lst.other_label(name)
            want = bytes(blob["data"][off:])
            ok = got[0] == "pos" and ob.sec_names[got[1]] == exp[1]
            where_iv = None
            if ok:
                where_iv = (got[3] is not None, got[3] or b"")
            if not ok or where_iv is None:
                viol.append({"key": "symbol-moved:other-section:" + (
                    got[0] if got[0] != "pos" else "wrong-section"),
                    "msg": f"{name}: expected in {exp[1]}, got {got[:3]}"})
            elif not where_iv[0]:
                viol.append({"key": "symbol-moved:other-section:"
                                    "inside-original-interval",
                             "msg": f"{name}: {got[:3]}"})
            elif where_iv[1][:len(want)] != want or \
                    len(where_iv[1]) != len(want):
                viol.append({"key": "symbol-moved:other-section:"
                                    "not-in-front-of-its-data",
                             "msg": f"{name}: {where_iv[1].hex()} != "
                                    f"{want.hex()}"})
            continue
        if exp[0] == "pos":
            ctr["labels_compared"] += 1
            if got[0] == "pos" and (got[1], got[2]) == (exp[1], exp[2]):
                # the same place can be spelled "end of the block in front":
                # a label that slid off a wholly deleted block stands at the
                # START of what follows (padding put in front of an aligned
                # follower would otherwise come between them)
                if tok is not None and tok.bid is not None and \
                        not tok.at_end and tok.patch is None and \
                        tok.bid in lst.deleted_blocks and \
                        tok.bid not in proxy_blocks:
                    sym_ = getattr(run.bu, "symbols", {}).get(name)
                    seq_ = tok_seq[exp[1]]
                    k_ = next(k for k, t in enumerate(seq_) if t is tok)
                    follows = any(t.t in "ID" and not t.uncovered
                                  for t in seq_[k_ + 1:])
                    ctr["slid_labels_checked"] = ctr.get(
                        "slid_labels_checked", 0) + 1
                    if sym_ is not None and sym_.at_end and follows:
                        viol.append({
                            "key": "symbol-moved:start:slid-onto-the-end-of-"
                                   "the-previous-block",
                            "msg": f"{name}: at_end of a block although "
                                   f"bytes follow"})
                continue
            nb = slid_onto_proxy(tok) if tok is not None else None
            if nb is not None and got[0] == "proxy":
                ctr["dontcare5"] += 1
                continue
            rel = relation(tok, exp, got)
            viol.append({
                "key": f"symbol-moved:{where}:{rel}",
                "msg": f"{name}: expected {exp} got {got[:3]} "
                       f"(block edits: {tag})"})
        else:  # proxydel
            ctr["proxy_labels_compared"] += 1
            bid = exp[1]
            if got[0] != "proxy":
                viol.append({"key": f"symbol-not-proxied:{got[0]}",
                             "msg": f"{name}: expected proxy of deleted "
                                    f"block {bid}, got {got[:3]}"})
                continue
            if not got[2]:
                viol.append({"key": "symbol-proxy-not-in-module",
                             "msg": name})
            if got[3][0] == "extern":
                viol.append({"key": "symbol-proxy-not-fresh",
                             "msg": f"{name} -> {got[3]}"})
            proxies_seen.setdefault(bid, set()).add(got[1])
    # one fresh proxy per deleted block, distinct between blocks
    ids = {}
    for bid, ps in proxies_seen.items():
        if len(ps) > 1:
            viol.append({"key": "symbol-proxy-split",
                         "msg": f"labels of deleted block {bid} on "
                                f"{len(ps)} proxies"})
        for p in ps:
            if p in ids and ids[p] != bid:
                viol.append({"key": "symbol-proxy-shared",
                             "msg": f"blocks {bid} and {ids[p]} share a "
                                    f"proxy"})
            ids[p] = bid
    # every symbol of the module is attached
    for name, gots in ob.symbols.items():
        for got in gots:
            if got[0] == "detached":
                viol.append({"key": "symbol-referent-detached",
                             "msg": name})
            elif got[0] == "none":
                viol.append({"key": "symbol-referent-none", "msg": name})
            elif got[0] == "proxy" and not got[2]:
                viol.append({"key": "symbol-proxy-not-in-module",
                             "msg": name})
        if name not in labels and name not in orig_extern:
            if not any(name.startswith(n + "_") for n in labels):
                viol.append({"key": "symbol-unexpected",
                             "msg": f"{name}: {gots}"})
    return viol, ctr


# ------------------------------------------------------------------ C03
def check_cfg(run, lst, ob):
    viol = []
    ctr = {"edges_compared": 0, "instructions_compared": 0,
           "dontcare1_halt": 0, "dontcare2_no_code_successor": 0,
           "dontcare3_zero_block_edges": 0, "dontcare4_pred_of_proxydel": 0}
    case = run.case
    labels = lst.label_positions()
    exp, ft_dontcare, instr_at = irbuild.expected_edges(lst, labels)
    edge_label = dict(irbuild.expected_edges.edge_label)
    calls = list(irbuild.expected_edges.calls)

    # identify observed proxies with the deleted block whose labels they
    # carry (several labels, also slid ones, may share the proxy)
    proxy_bid = {}
    for bid, names in lst.proxy_deleted.items():
        for nme in names:
            for got in ob.symbols.get(nme, []):
                if got[0] == "proxy":
                    proxy_bid.setdefault(got[1], bid)

    def norm_obs_tgt(t):
        if t[0] == "proxy":
            if t[1] in proxy_bid:
                return ("proxydel", proxy_bid[t[1]])
            return ("anon",)
        return t

    def norm_tgt(t):
        if t[0] == "proxydel" and not lst.proxy_deleted.get(t[1]):
            return ("anon",)
        return t
    exp = {(si, p, et, c, d, norm_tgt(t)) for (si, p, et, c, d, t) in exp}

    # structural problems
    for p in ob.edge_problems:
        viol.append({"key": f"cfg:{p[0]}", "msg": str(p)})
    for ipos, mnem in ob.buried:
        tok = instr_at.get(ipos)
        origin = "?" if tok is None else (
            "patch" if tok.patch is not None else "orig")
        viol.append({"key": f"cfg:buried-control-transfer:{origin}",
                     "msg": f"{mnem} at {ipos} is not last in its block"})
    for p in ob.partial:
        viol.append({"key": "cfg:undecodable-code-block", "msg": str(p)})
    # instruction boundaries must agree with the listing
    for key, tok in instr_at.items():
        ctr["instructions_compared"] += 1
        info = ob.instrs.get(key)
        if info is None:
            viol.append({"key": "cfg:instruction-not-in-code-block",
                         "msg": f"{tok.key} at {key}"})
    obs = set()
    raw_tgt = {}
    halts = {k for k, t in instr_at.items() if t.kind == "halt"}
    for (si, p, et, c, d, t, origin) in ob.edges:
        if origin == "zero":
            ctr["dontcare3_zero_block_edges"] += 1
            continue
        obs.add((si, p, et, c, d, norm_obs_tgt(t)))
        raw_tgt.setdefault((si, p, et, c, d, norm_obs_tgt(t)), set()).add(t)
    # don't-care 1: fallthrough after halt-like instructions
    n0 = len(obs) + len(exp)
    obs = {e for e in obs if not (e[2] == "ft" and (e[0], e[1]) in halts)}
    exp = {e for e in exp if not (e[2] == "ft" and (e[0], e[1]) in halts)}
    ctr["dontcare1_halt"] += n0 - len(obs) - len(exp)
    # don't-care 2: no physically following code: ft to a proxy, to a
    # position without code, to the code behind an address gap, or none
    gap_next = {}
    for si in range(len(lst.secs)):
        seq = lst.code_stream(si)
        for k, (t, contiguous) in enumerate(seq):
            if t.t == "I" and not contiguous and k + 1 < len(seq) and \
                    seq[k + 1][0].t == "I":
                gap_next[(si, t.pos)] = (si, seq[k + 1][0].pos)
    drop = {e for e in obs if e[2] == "ft" and (e[0], e[1]) in ft_dontcare
            and (e[5][0] in ("anon", "proxydel", "extern")
                 or (e[5][0] == "pos" and (e[5][1], e[5][2]) not in instr_at)
                 or (e[5][0] == "pos" and (e[0], e[1]) in gap_next
                     and gap_next[(e[0], e[1])] == (e[5][1], e[5][2])))}
    ctr["dontcare2_no_code_successor"] += len(drop)
    obs -= drop
    # don't-care 4: predecessor of a proxy-deleted block may fall through to
    # that proxy instead of the physical successor
    proxy_keys = set()
    for bid, names in lst.proxy_deleted.items():
        proxy_keys.add(("proxydel", bid) if names else ("anon",))
    pred_of_proxydel = predecessors_of_proxy_deleted(lst)
    missing = exp - obs
    extra = obs - exp
    for e in list(extra):
        if e[2] == "ft" and (e[0], e[1]) in pred_of_proxydel and \
                e[5] in proxy_keys:
            extra.discard(e)
            for m in list(missing):
                if m[:3] == e[:3]:
                    missing.discard(m)
            ctr["dontcare4_pred_of_proxydel"] += 1
    # don't-care 4 for return edges: the return site of a call that is
    # physically followed by the remains of a proxy-deleted block may be that
    # block's proxy (incoming control flow is redirected to the proxy)
    call_pred = {(si, t.pos) for (si, t, site, tgt) in calls
                 if (si, t.pos) in pred_of_proxydel}
    if call_pred:
        for e in list(extra):
            anon_ok = any(not n for n in lst.proxy_deleted.values())
            if e[2] == "return" and (e[5][0] == "proxydel" or (
                    e[5] == ("anon",) and anon_ok)):
                tok = instr_at.get((e[0], e[1]))
                ok = any((si, t.pos) in call_pred for (si, t, site, tgt) in calls)
                if tok is not None and ok:
                    extra.discard(e)
                    ctr["dontcare4_pred_of_proxydel"] += 1
                    # its counterpart: the expected anon/site edge of that ret
                    for m in list(missing):
                        if m[:3] == e[:3]:
                            missing.discard(m)
                            break
    # a call that is not physically followed by code has no return site in
    # the listing; its callee's returns may then lead to an unknown proxy or
    # to the (code-less) position right behind the call
    alt_sites = {}
    for (si, t, site, ctgt) in calls:
        if site is None and ctgt[0] == "pos":
            callee = instr_at.get((ctgt[1], ctgt[2]))
            if callee is not None and callee.fn is not None:
                alt_sites.setdefault(callee.fn, set()).add(
                    ("pos", si, t.pos + t.size))
    ctr["dontcare2_return_to_codeless_site"] = 0
    for e in list(extra):
        if e[2] != "return" or e[5][0] != "pos":
            continue
        tok = instr_at.get((e[0], e[1]))
        if tok is not None and e[5] in alt_sites.get(tok.fn, ()):
            extra.discard(e)
            ctr["dontcare2_return_to_codeless_site"] += 1
            for m in list(missing):
                if m[:3] == e[:3] and m[5] == ("anon",):
                    missing.discard(m)
    # a call whose target label stands in front of no code (end of section,
    # data) has no callee in the listing: return edges to its site are not
    # judged
    free_sites = set()
    for (si, t, site, ctgt) in calls:
        if ctgt[0] == "pos" and (ctgt[1], ctgt[2]) not in instr_at:
            free_sites.add(("pos", si, site if site is not None
                            else t.pos + t.size))
    ctr["dontcare2_call_to_codeless_label"] = 0
    for e in list(extra):
        if e[2] == "return" and e[5] in free_sites:
            extra.discard(e)
            ctr["dontcare2_call_to_codeless_label"] += 1
            rest = [x for x in extra if x[:3] == e[:3]]
            if not rest:
                for m in list(missing):
                    if m[:3] == e[:3] and m[5] == ("anon",):
                        missing.discard(m)
    # a direct branch/call must lead to where its target label IS; where the
    # label itself is displaced (judged by C02) the edge may follow it
    ctr["edge_follows_displaced_label"] = 0
    for m in list(missing):
        name = edge_label.get((m[0], m[1], m[2]))
        if name is None or m[2] not in ("branch", "call"):
            continue
        got = obs_symbol(ob, name)
        if not got or len(got) != 1:
            continue
        got = got[0]
        want = None
        if got[0] == "pos":
            want = ("pos", got[1], got[2])
        elif got[0] == "proxy":
            want = ("proxy", got[1])
        for e in list(extra):
            if e[:5] == m[:5] and want in raw_tgt.get(e, ()):
                extra.discard(e)
                missing.discard(m)
                ctr["edge_follows_displaced_label"] += 1
                break
    # return sites of calls whose target label is displaced (C02's subject)
    # follow the label as well
    displaced_sites = set()
    for (si, t, site, ctgt) in calls:
        got = obs_symbol(ob, t.target)
        if site is None or not got or len(got) != 1 or ctgt[0] != "pos":
            continue
        g = got[0]
        if not (g[0] == "pos" and (g[1], g[2]) == (ctgt[1], ctgt[2])):
            displaced_sites.add(("pos", si, site))
    for m in list(missing):
        if m[2] == "return" and m[5] in displaced_sites:
            missing.discard(m)
            ctr["edge_follows_displaced_label"] += 1
            for e in list(extra):
                if e[:3] == m[:3] and e[5][0] in ("anon", "proxydel"):
                    extra.discard(e)
    ctr["edges_compared"] += len(exp | obs)
    seq_index = {}
    for si in range(len(lst.secs)):
        seq = [t for t, _ in lst.code_stream(si)]
        for k, t in enumerate(seq):
            seq_index[id(t)] = (si, k, seq)
    fn_had_ret = set()
    for s in case["secs"]:
        for iv in s["ivs"]:
            for b in iv["blocks"]:
                if b["code"]:
                    for it in b["items"]:
                        if it["k"] == "ret":
                            fn_had_ret.add(lst.block_fn.get(b["id"]))

    def describe(e, what):
        tok = instr_at.get((e[0], e[1]))
        if tok is None:
            return f"cfg:{what}:{e[2]}:src-unknown"
        origin = "patch" if tok.patch is not None else "orig"
        ctxs = []
        si, k, seq = seq_index[id(tok)]
        nxt = seq[k + 1] if k + 1 < len(seq) else None
        if e[2] == "ft":
            fall = "fall" if tok.kind in ("ord", "call", "jcc", "icall",
                                          "syscall") \
                else "nofall"
            ctxs.append(fall)
            ctxs.append(boundary_class(tok, nxt))
            if what == "missing":
                if tok.patch is not None and after_data_ending_patch(
                        case, tok.patch):
                    return ("cfg:missing:ft:fall:"
                            "after-patch-ending-in-data-at-same-place")
                ctxs.append(missing_ft_context(lst, case, tok, nxt))
        if e[2] == "return" and tok.kind != "ret":
            # observed edges are those of a block's last instruction
            return f"cfg:{what}:return:from-non-return-instruction:{tok.kind}"
        if e[2] == "return":
            return "cfg:%s:return:%s" % (what, return_context(
                e, what, tok, origin))
        if e[2] in ("branch", "call"):
            ctxs.append(f"to-{e[5][0]}")
        if e[2] == "ft":
            return f"cfg:{what}:ft:" + ":".join(c for c in ctxs if c)
        return f"cfg:{what}:{e[2]}:{tok.kind}:{origin}:" + ":".join(ctxs)

    input_fn_of_label = input_label_functions(case)
    input_site_blocks = input_return_site_blocks(case, case["isa"])
    # positions behind call blocks that were deleted with retarget_to_proxy
    proxied_call_sites = {}
    bpos_ = {}
    for si_, ii_, t_ in lst.all_tokens():
        if t_.t == "B":
            bpos_[t_.bid] = ("pos", si_, t_.pos)
    for s_ in case["secs"]:
        blocks_ = [b for iv in s_["ivs"] for b in iv["blocks"]]
        for b_, nxt_ in zip(blocks_, blocks_[1:]):
            if b_["code"] and b_["items"] and b_["id"] in lst.proxy_deleted \
                    and vocab.VOCAB[case["isa"]][b_["items"][-1]["k"]][
                        "kind"] == "call":
                fn_ = input_fn_of_label.get(b_["items"][-1].get("t"))
                if fn_ is not None and nxt_["id"] in bpos_:
                    proxied_call_sites.setdefault(fn_, set()).add(
                        bpos_[nxt_["id"]])
    # ... and positions behind calls whose target block was deleted with
    # retarget_to_proxy (the call then leads to the proxy; deleting the call
    # afterwards no longer finds the callee whose returns lead behind it)
    callee_proxied_sites = {}
    blk_of_label_ = {l_: b_["id"] for s_ in case["secs"] for iv in s_["ivs"]
                     for b_ in iv["blocks"] for l_ in b_["labels"]}
    for s_ in case["secs"]:
        blocks_ = [b for iv in s_["ivs"] for b in iv["blocks"]]
        for b_, nxt_ in zip(blocks_, blocks_[1:]):
            if b_["code"] and b_["items"] and vocab.VOCAB[case["isa"]][
                    b_["items"][-1]["k"]]["kind"] == "call":
                t_ = b_["items"][-1].get("t")
                fn_ = input_fn_of_label.get(t_)
                if fn_ is not None and nxt_["id"] in bpos_ and \
                        blk_of_label_.get(t_) in lst.proxy_deleted:
                    callee_proxied_sites.setdefault(fn_, set()).add(
                        bpos_[nxt_["id"]])
    # the function a label leads into NOW (a label that slid off a deleted
    # block names the code behind it)
    fn_of_label_now = {}
    pend_, last_iv_ = [], None
    for si_, ii_, t_ in lst.all_tokens():
        if (si_, ii_) != last_iv_:
            pend_, last_iv_ = [], (si_, ii_)
        if t_.t == "L":
            pend_.append(t_.name)
        elif t_.t == "I":
            for n_ in pend_:
                fn_of_label_now.setdefault(n_, t_.fn)
            pend_ = []
        elif t_.t == "D":
            pend_ = []
    bpos_now = {t_.bid: (si_, t_.pos) for si_, ii_, t_ in lst.all_tokens()
                if t_.t == "B"}
    fn_orig_ret_left = {t.fn for t in instr_at.values()
                        if t.kind == "ret" and t.patch is None}
    missing_ft_src0 = {(m[0], m[1]) for m in missing if m[2] == "ft"}
    missing_ret_src = {(m[0], m[1]) for m in missing if m[2] == "return"
                       and m[5][0] == "pos"}

    def return_context(e, what, tok, origin):
        tgt = e[5]
        if what == "missing" and tgt[0] == "pos":
            # the call whose return site this is
            cs = [(si, t) for (si, t, site, ctgt) in calls
                  if site == tgt[2] and si == tgt[1]]
            c = cs[0][1] if cs else None
            if c is not None and (tgt[1], c.pos) in missing_ft_src0:
                return "site-after-unlinked-call"
            if c is not None and c.patch is not None and \
                    tok.patch is not None and c.patch == tok.patch:
                return "call-and-ret-in-same-patch"
            if tok.patch is not None and tok.fn not in fn_orig_ret_left:
                return "patch-ret-in-function-without-other-ret"
            if c is not None and c.target in input_fn_of_label and \
                    input_fn_of_label[c.target] != tok.fn:
                return "callee-changed-by-label-slide"
            if c is not None and (tgt[1], c.pos) in pred_of_proxydel:
                return "missing-site:return-site-block-proxy-deleted"
            corig = "?" if c is None else (
                "patchcall" if c.patch is not None else "origcall")
            if tok.patch is not None and after_data_ending_patch(
                    case, tok.patch):
                # (F47) the returning patch was inserted "into" the data
                # block an earlier patch at the same place ended with: its
                # blocks belong to no function, so the function's later
                # callers do not reach its ret
                return (f"missing-site:{origin}-ret:{corig}:"
                        "after-patch-ending-in-data-at-same-place")
            if tok.patch is not None:
                # (F25) the missing site is the start of the returning patch
                # itself: the patch stands directly behind the call
                si_, k_, seq_ = seq_index[id(tok)]
                j = k_
                while j > 0 and seq_[j - 1].patch == tok.patch:
                    j -= 1
                if seq_[j].pos == tgt[2] and si_ == tgt[1]:
                    return (f"missing-site:{origin}-ret:{corig}:"
                            "site-is-the-start-of-the-returning-patch")
                if any(t_.patch == tok.patch and t_.kind == "call" and
                       input_fn_of_label.get(t_.target) == tok.fn
                       for t_ in seq_[j:k_ + 1]):
                    # (F21) the returning patch itself calls its function:
                    # its ret is only given an unknown return
                    return (f"missing-site:{origin}-ret:{corig}:"
                            "ret-behind-a-call-to-its-function-in-one-patch")
            return f"missing-site:{origin}-ret:{corig}"
        if what == "missing":
            if any(x[2] == "return" and x[:2] == e[:2] for x in extra):
                return None    # flip side of the extra return edge
            return f"missing-unknown-proxy:{origin}-ret"
        # extra
        entries = [b for f in case.get("funcs", []) if f["name"] == tok.fn
                   for b in f["entries"]]
        if tgt[0] != "anon" and any(b in lst.proxy_deleted for b in entries):
            return "stale:function-entry-proxied"
        if tgt[0] in ("anon", "proxydel") and \
                (e[0], e[1]) in missing_ret_src:
            return None    # flip side of a missing site edge
        if tgt[0] == "pos":
            cs = [(si, t, ctgt) for (si, t, site, ctgt) in calls
                  if site == tgt[2] and si == tgt[1]]
            if not cs:
                # a call that ends exactly there and has no code behind it in
                # the listing: its site is a zero-sized block at that place
                cs = [(si, t, ctgt) for (si, t, site, ctgt) in calls
                      if site is None and si == tgt[1] and
                      t.pos + t.size == tgt[2]]
            if cs:
                c, ctgt = cs[0][1], cs[0][2]
                if ctgt[0] in ("proxydel", "extern"):
                    return "stale-site:callee-now-proxy"
                return "stale-site:callee-changed"
            if tok.patch is not None:
                # (F25) is the patch placed directly behind a call to the
                # function it is in?
                si_, k_, seq_ = seq_index[id(tok)]
                j = k_
                while j > 0 and seq_[j - 1].patch == tok.patch:
                    j -= 1
                prev = seq_[j - 1] if j > 0 else None
                if prev is not None and prev.t == "I" and \
                        prev.kind == "call" and tok.fn is not None and \
                        input_fn_of_label.get(prev.target) == tok.fn:
                    f25_sites.add((tok.fn, tgt))
                    return (f"extra-site:{origin}-ret:no-call-there:"
                            "patch-behind-call-to-its-own-function")
                if prev is not None and prev.t == "I" and \
                        prev.kind == "call" and tok.fn is not None and \
                        prev.patch is not None and \
                        fn_of_label_now.get(prev.target) == tok.fn:
                    # (F25) the same, the call being a patch's whose target
                    # label slid onto this function with a deleted block
                    f25_sites.add((tok.fn, tgt))
                    return (f"extra-site:{origin}-ret:no-call-there:"
                            "patch-behind-call-whose-label-slid-onto-its-"
                            "own-function")
                e_ = case["edits"][tok.patch] if 0 <= tok.patch < len(
                    case["edits"]) else None
                if e_ is not None and e_.get("op") == "rep" and \
                        tok.fn is not None:
                    blk_ = lst.block_info[e_["b"]]["blk"]
                    if any(it.get("k") == "call" and
                           input_fn_of_label.get(it.get("t")) == tok.fn
                           for it in blk_["items"][e_["i"]:e_["i"] + e_["n"]]):
                        # (F25) ... or the patch replaces such a call
                        f25_sites.add((tok.fn, tgt))
                        return (f"extra-site:{origin}-ret:no-call-there:"
                                "patch-replacing-a-call-to-its-own-function")
                if (tok.fn, tgt) in f25_sites:
                    # a later returning patch copies the function's return
                    # edges, the stale one included
                    return (f"extra-site:{origin}-ret:no-call-there:"
                            "copied-from-patch-behind-call-to-its-own-"
                            "function")
            if tok.fn is not None and tgt in proxied_call_sites.get(
                    tok.fn, ()):
                # (F20) the block that held the call was deleted with
                # retarget_to_proxy: the callee keeps returning behind it
                return (f"extra-site:{origin}-ret:no-call-there:"
                        "call-block-proxy-deleted")
            if tok.fn is not None and tgt in callee_proxied_sites.get(
                    tok.fn, ()):
                # (F20) the block the call led to was deleted with
                # retarget_to_proxy before the call itself was deleted
                return (f"extra-site:{origin}-ret:no-call-there:"
                        "called-block-proxy-deleted")
            if tok.fn is not None and \
                    fn_of_label_now.get(tok.fn, tok.fn) != tok.fn and any(
                        bpos_now.get(b) == (tgt[1], tgt[2])
                        for b in input_site_blocks.get(tok.fn, ())):
                # (F24) the function's entry label slid onto another
                # function's code, so its calls have another callee now and
                # its returns are no longer maintained: the old site edge
                # stays when code is put between the call and that site
                return (f"extra-site:{origin}-ret:no-call-there:"
                        "stale-site-of-a-callee-changed-by-label-slide")
            return f"extra-site:{origin}-ret:no-call-there"
        if tok.fn is not None and any(
                b in lst.proxy_deleted
                for b in input_site_blocks.get(tok.fn, ())):
            # the stale site edge of the line above, followed onto the proxy
            # of its proxy-deleted site block
            return f"extra-site:{origin}-ret:no-call-there:site-proxy-deleted"
        return f"extra-unknown-proxy:{origin}-ret"

    for e in sorted(missing, key=repr):
        k = describe(e, "missing")
        if k.endswith(":None"):
            continue
        viol.append({"key": k, "msg": f"missing edge {e}"})
    missing_ft_src = {(m[0], m[1]) for m in missing if m[2] == "ft"}
    f25_sites = set()
    for e in sorted(extra, key=repr):
        # (first pass: the sites F25 leaves behind, see return_context)
        if e[2] == "return":
            describe(e, "extra")
    for e in sorted(extra, key=repr):
        if e[2] == "ft" and (e[0], e[1]) in missing_ft_src and \
                e[5][0] in ("anon", "proxydel"):
            continue    # flip side of the missing fallthrough reported above
        k = describe(e, "extra")
        if k.endswith(":None"):
            continue
        viol.append({"key": k, "msg": f"extra edge {e}"})
    return viol, ctr


def boundary_class(tok, nxt):
    if nxt is None:
        return "at-section-end"
    if nxt.t != "I":
        return "before-data"
    a = "patch" if tok.patch is not None else "orig"
    b = "patch" if nxt.patch is not None else "orig"
    if a == "orig" and b == "orig":
        if tok.uid[1] == nxt.uid[1]:
            return ("intra-block" if nxt.uid[2] == tok.uid[2] + 1
                    else "intra-block-across-deletion")
        return "block-boundary"
    if a == "patch" and b == "patch":
        return ("intra-patch" if tok.patch == nxt.patch
                else "patch-to-patch")
    return f"{a}-to-{b}"


def predecessors_of_proxy_deleted(lst):
    """positions of instructions physically followed by the remains of a
    proxy-deleted block"""
    res = set()
    for si, ivs in enumerate(lst.secs):
        seq = [t for toks in ivs for t in toks]
        last_instr = None
        for t in seq:
            if t.t == "I":
                last_instr = t
            elif t.t == "D" and not t.uncovered:
                last_instr = None
            elif t.t == "B" and t.bid in lst.proxy_deleted and \
                    last_instr is not None:
                res.add((si, last_instr.pos))
    return res


def input_block_ends(case):
    """bid -> (last instruction can fall through, code physically follows)
    for every code block of the INPUT listing"""
    from .listing import Listing
    l0 = Listing(case)
    l0.layout()
    res = {}
    for si in range(len(l0.secs)):
        seq = l0.code_stream(si)
        for k, (t, contiguous) in enumerate(seq):
            if t.t != "I":
                continue
            nxt = seq[k + 1][0] if contiguous and k + 1 < len(seq) else None
            if nxt is None or nxt.bid != t.bid:
                res[t.bid] = (t.kind in ("ord", "call", "jcc", "icall",
                                         "syscall"),
                              nxt is not None and nxt.t == "I")
    return res


def missing_ft_context(lst, case, tok, nxt):
    """which original block end governs the boundary after tok, and did that
    block end have a fallthrough edge to code in the input?"""
    if nxt is None:
        return ""
    owner = tok.bid if tok.patch is None else (
        tok.site[0] if tok.site else None)
    if owner is None:
        return ""
    # the boundary lies at/after the end of owner's original content iff no
    # surviving original item of owner follows tok
    after = False
    seen = False
    for si, ii, t in lst.all_tokens():
        if t is tok:
            seen = True
            continue
        if seen and t.t in "ID" and t.patch is None and t.bid == owner:
            after = True
            break
    if after:
        return ""
    falls, succ = input_block_ends(case).get(owner, (True, True))
    if not succ:
        return "no-input-code-successor"
    # a wholly deleted data block between tok and nxt
    seen = False
    for si, ii, t in lst.all_tokens():
        if t is tok:
            seen = True
        elif t is nxt:
            break
        elif seen and t.t == "B" and not t.code and (
                t.bid in lst.deleted_blocks or t.bid in lst.proxy_deleted):
            return "data-deleted-between"
    if not falls:
        return "input-terminator-removed"
    return ""


def input_label_functions(case):
    """label name -> function name of the block carrying it in the input"""
    fn_of = {b: f["name"] for f in case.get("funcs", []) for b in f["blocks"]}
    res = {}
    for s in case["secs"]:
        for iv in s["ivs"]:
            for b in iv["blocks"]:
                for nme in b.get("labels", []):
                    res[nme] = fn_of.get(b["id"])
    return res


def obs_symbol(ob, name):
    """observed referents of a label; a temporary label's module symbol
    carries a per-patch suffix"""
    got = ob.symbols.get(name)
    if got is None and name is not None and name.startswith(".L"):
        cands = [n for n in ob.symbols if n.startswith(name + "_")
                 and n[len(name) + 1:].isdigit()]
        if len(cands) == 1:
            got = ob.symbols[cands[0]]
    return got


def input_return_site_blocks(case, isa):
    """function name -> ids of the blocks that, in the input, directly follow
    a block ending in a direct call to a label of that function"""
    fn_of_label = input_label_functions(case)
    res = {}
    for s in case["secs"]:
        blocks = [b for iv in s["ivs"] for b in iv["blocks"]]
        for b, nxt in zip(blocks, blocks[1:]):
            if not b["code"] or not b["items"]:
                continue
            last = b["items"][-1]
            if vocab.VOCAB[isa][last["k"]]["kind"] != "call":
                continue
            fn = fn_of_label.get(last.get("t"))
            if fn is not None:
                res.setdefault(fn, set()).add(nxt["id"])
        # ... or that follow a block at whose end a patch with such a call
        # is placed (the block is the call's return site until a later
        # insertion at the same boundary takes over)
        for b, nxt in zip(blocks, blocks[1:]):
            if not b["code"]:
                continue
            n = len(b["items"])
            for e in case["edits"]:
                if e.get("b") != b["id"] or e.get("op") not in ("ins", "rep"):
                    continue
                if e["i"] + e.get("n", 0) != n:
                    continue
                for ln in (e.get("p") or {}).get("lines", []):
                    if ln.get("k") == "call":
                        fn = fn_of_label.get(ln.get("t"))
                        if fn is not None:
                            res.setdefault(fn, set()).add(nxt["id"])
    return res


# ------------------------------------------------------------------ C04
def check_aux(run, lst, ob):
    import gtirb
    viol = []
    ctr = {"expressions_compared": 0, "annotations_compared": 0,
           "patch_expressions_compared": 0}
    case = run.case
    bu = run.bu
    m = bu.module
    ectx = edit_context(case)
    sizes = m.aux_data["symbolicExpressionSizes"].data \
        if "symbolicExpressionSizes" in m.aux_data else {}
    # recorded patch expressions: invocation (edit id) -> {off: summary}
    rec_by_eid = {}
    for a in run.rec.assembled:
        if a["summary"] is not None:
            rec_by_eid[a["patch"].eid] = a["summary"]
    # unique symbols per name
    by_name = {}
    for s in m.symbols:
        by_name.setdefault(s.name, []).append(s)
    for nme, ss in by_name.items():
        if len(ss) > 1:
            viol.append({"key": "aux:duplicate-symbol-name", "msg": nme})
    for nme, same in getattr(bu, "extern_lookups", []):
        ctr["extern_lookups"] = ctr.get("extern_lookups", 0) + 1
        if not same:
            viol.append({"key": "aux:extern-lookup-returned-another-symbol",
                         "msg": nme})
    size_by_iv = {}
    for off, sz in sizes.items():
        size_by_iv.setdefault(id(off.element_id), {})[off.displacement] = sz
    for si, ivs in enumerate(lst.secs):
        for ii, toks in enumerate(ivs):
            bi = bu.intervals[si][ii]
            exp = {}
            patch_start = {}
            for t in toks:
                if t.t in "ID" and t.patch is not None and \
                        t.patch not in patch_start:
                    patch_start[t.patch] = t.ivpos
            for t in toks:
                if t.t in "ID" and t.target is not None and t.sym:
                    exp[t.ivpos + t.sym[0]] = t
            got = dict(bi.symbolic_expressions)
            for off in sorted(set(exp) | set(got)):
                t = exp.get(off)
                e = got.get(off)
                if t is None:
                    inside = 0 <= off < bi.size
                    viol.append({
                        "key": "aux:expr-unexpected:" + (
                            "inside" if inside else "outside-interval"),
                        "msg": f"sec {si} iv {ii} off {off}: {e}"})
                    continue
                origin = "patch" if t.patch is not None else "orig"
                tag = ctx_tag(ectx, t.bid) if t.bid is not None else "patch"
                if e is None:
                    viol.append({"key": f"aux:expr-missing:{origin}",
                                 "msg": f"sec {si} iv {ii} off {off} "
                                        f"{t.key}->{t.target} ({tag})"})
                    continue
                ctr["expressions_compared"] += 1
                if not isinstance(e, gtirb.SymAddrConst):
                    viol.append({"key": "aux:expr-kind", "msg": str(e)})
                    continue
                want = by_name.get(t.target, [None])[0]
                if t.patch is not None and not getattr(
                        label_tok(lst, t.target), "pglobal", True):
                    # temporary label: the module symbol carries a suffix
                    cands = [s for n, ss in by_name.items() for s in ss
                             if n.startswith(t.target + "_")]
                    want = cands[0] if len(cands) == 1 else None
                if e.symbol is not want:
                    viol.append({
                        "key": f"aux:expr-wrong-symbol:{origin}",
                        "msg": f"off {off}: {e.symbol.name} is not the "
                               f"module's {t.target}"})
                elif e.symbol.module is not m:
                    viol.append({"key": "aux:expr-symbol-not-in-module",
                                 "msg": t.target})
                if e.offset != t.addend:
                    viol.append({"key": f"aux:expr-addend:{origin}",
                                 "msg": f"off {off}: {e.offset} != "
                                        f"{t.addend}"})
                want_size = t.sym[1]
                if t.patch is not None:
                    ctr["patch_expressions_compared"] += 1
                    summ = rec_by_eid.get(t.patch)
                    rel = off - patch_start[t.patch]
                    if summ is not None and rel in summ["exprs"]:
                        r = summ["exprs"][rel]
                        attrs = tuple(sorted(str(a) for a in e.attributes))
                        if r[0] == "const" and attrs != r[3]:
                            viol.append({"key": "aux:expr-attributes:patch",
                                         "msg": f"{attrs} != {r[3]}"})
                        want_size = summ["sizes"].get(rel, want_size)
                    else:
                        viol.append({"key": "aux:expr-not-from-assembler",
                                     "msg": f"off {off}"})
                elif e.attributes:
                    viol.append({"key": "aux:expr-attributes:orig",
                                 "msg": str(e.attributes)})
                if t.patch is None and case.get("no_expr_sizes_table"):
                    want_size = None    # the input recorded no sizes
                gsz = size_by_iv.get(id(bi), {}).get(off)
                if gsz != want_size:
                    viol.append({
                        "key": f"aux:expr-size:{origin}:" + (
                            "missing" if gsz is None else "differs"),
                        "msg": f"off {off}: size {gsz} != {want_size}"})
            for off in size_by_iv.get(id(bi), {}):
                if off not in exp:
                    viol.append({"key": "aux:size-entry-unexpected",
                                 "msg": f"sec {si} iv {ii} off {off}"})
    live_iv = {id(bi) for row in bu.intervals for bi in row}
    for off in sizes:
        el = off.element_id
        if id(el) not in live_iv and not (
                isinstance(el, gtirb.ByteInterval) and el.module is m):
            viol.append({"key": "aux:size-entry-dangling", "msg": str(off)})
    # comments / padding
    pos_of_iv = {}
    for si, row in enumerate(bu.intervals):
        for ii, bi in enumerate(row):
            pos_of_iv[id(bi)] = (si, ii)
    for table in ("comments", "padding"):
        data = m.aux_data[table].data if table in m.aux_data else {}
        got = {}
        for off, val in data.items():
            el = off.element_id
            if isinstance(el, gtirb.ByteInterval):
                where = pos_of_iv.get(id(el))
                p = off.displacement
                size = el.size
            else:
                bi = getattr(el, "byte_interval", None)
                where = pos_of_iv.get(id(bi)) if bi is not None else None
                p = (el.offset + off.displacement) if bi is not None else None
                size = bi.size if bi is not None else 0
                if bi is not None and not (
                        0 <= off.displacement <= el.size):
                    viol.append({"key": f"aux:{table}:outside-block",
                                 "msg": f"{val}: disp {off.displacement} "
                                        f"block size {el.size}"})
            if where is None:
                viol.append({"key": f"aux:{table}:dangling-element",
                             "msg": f"{val}"})
                continue
            if not (0 <= p < size):
                viol.append({"key": f"aux:{table}:outside-interval",
                             "msg": f"{val} at {p} size {size}"})
            got.setdefault(val, []).append(where + (p,))
        exp = {}
        for si, ii, t in lst.all_tokens():
            if t.t in "ID":
                for k, v in t.ann.items():
                    if k.split("@")[0] == table:
                        exp.setdefault(v, []).append((si, ii, t.ivpos))
        for v in sorted(set(exp) | set(got), key=str):
            ctr["annotations_compared"] += 1
            e, g = sorted(exp.get(v, [])), sorted(got.get(v, []))
            if e == g:
                continue
            if not g:
                viol.append({"key": f"aux:{table}:lost",
                             "msg": f"{v} expected at {e}"})
            elif not e:
                viol.append({"key": f"aux:{table}:survived-removal",
                             "msg": f"{v} at {g}"})
            else:
                viol.append({"key": f"aux:{table}:moved",
                             "msg": f"{v}: expected {e} got {g}"})
    return viol, ctr


def label_tok(lst, name):
    for si, ii, t in lst.all_tokens():
        if t.t == "L" and t.name == name:
            return t
    o = lst.other_label(name)
    return o[0] if o else None


# ------------------------------------------------------------------ C06
def check_functions(run, lst, ob):
    import gtirb
    viol = []
    ctr = {"instruction_attributions_compared": 0, "functions_compared": 0,
           "entries_compared": 0}
    case = run.case
    bu = run.bu
    m = bu.module
    fb = m.aux_data.get("functionBlocks")
    fe = m.aux_data.get("functionEntries")
    fnm = m.aux_data.get("functionNames")
    if fb is None or fe is None or fnm is None:
        if case.get("funcs"):
            viol.append({"key": "fn:table-missing", "msg": ""})
        return viol, ctr
    fb, fe, fnm = fb.data, fe.data, fnm.data
    name_of = {}
    for fu, sym in fnm.items():
        name_of[fu] = getattr(sym, "name", None)
        if not isinstance(sym, gtirb.Symbol) or sym.module is not m:
            viol.append({"key": "fn:name-symbol-not-in-module",
                         "msg": str(fu)})
    if set(fb) != set(fe) or set(fb) != set(fnm):
        viol.append({"key": "fn:tables-disagree-on-functions",
                     "msg": f"blocks {len(fb)} entries {len(fe)} names "
                            f"{len(fnm)}"})
    owner = {}
    for fu, blocks in fb.items():
        if not blocks:
            viol.append({"key": "fn:function-without-blocks-kept",
                         "msg": str(name_of.get(fu))})
        for b in blocks:
            if not isinstance(b, gtirb.CodeBlock):
                viol.append({"key": "fn:non-code-block-in-function",
                             "msg": f"{type(b).__name__} in "
                                    f"{name_of.get(fu)}"})
                continue
            if ob.blockpos(b) is None or b.module is not m:
                viol.append({"key": "fn:detached-block-in-functionBlocks",
                             "msg": str(name_of.get(fu))})
                continue
            if id(b) in owner and owner[id(b)] != fu:
                viol.append({"key": "fn:block-in-two-functions",
                             "msg": f"{ob.blockpos(b)}"})
            owner[id(b)] = fu
    for fu, blocks in fe.items():
        for b in blocks:
            if b not in fb.get(fu, ()):
                viol.append({"key": "fn:entry-not-in-blocks",
                             "msg": str(name_of.get(fu))})
    # per-instruction attribution
    for (si, pos), info in ob.instrs.items():
        tok = None
        for t in lst_instr_index(lst).get((si, pos), []):
            tok = t
        if tok is None:
            continue
        ctr["instruction_attributions_compared"] += 1
        got = name_of.get(owner.get(id(info["block"])))
        if got != tok.fn:
            origin = "patch" if tok.patch is not None else "orig"
            if tok.patch is not None and got is None and \
                    after_data_ending_patch(case, tok.patch):
                origin = "patch:after-patch-ending-in-data-at-same-place"
            viol.append({
                "key": f"fn:instruction-in-wrong-function:{origin}",
                "msg": f"{tok.key} at {(si, pos)}: expected {tok.fn} got "
                       f"{got}"})
    # data a patch brings along (an inline table it jumps over) is data: it
    # sits in a DataBlock and belongs to no function
    import gtirb as _g
    for si, ii, t in lst.all_tokens():
        if t.t != "D" or t.patch is None or not t.size:
            continue
        e_ = case["edits"][t.patch] if 0 <= t.patch < len(case["edits"]) \
            else None
        if e_ is None or not lst.block_info[e_["b"]]["code"]:
            continue
        bi = bu.intervals[si][ii]
        cover = [b for b in bi.blocks
                 if b.offset <= t.ivpos < b.offset + b.size]
        ctr["patch_data_tokens_checked"] = ctr.get(
            "patch_data_tokens_checked", 0) + 1
        if len(cover) != 1:
            continue      # (C01/C05 judge tiling)
        b = cover[0]
        if not isinstance(b, _g.DataBlock):
            viol.append({"key": "fn:patch-data-in-code-block",
                         "msg": f"sec {si} iv {ii} +{t.ivpos}"})
        elif id(b) in owner:
            viol.append({"key": "fn:patch-data-block-in-function",
                         "msg": f"sec {si} iv {ii} +{t.ivpos}"})
    # function set: functions with surviving code
    alive = {}
    for si, ii, t in lst.all_tokens():
        if t.t == "I" and t.fn is not None:
            alive[t.fn] = alive.get(t.fn, 0) + 1
    got_fns = {name_of[fu] for fu in fb}
    for f in case.get("funcs", []):
        ctr["functions_compared"] += 1
        nme = f["name"]
        if alive.get(nme) and nme not in got_fns:
            viol.append({"key": "fn:function-with-code-vanished",
                         "msg": nme})
        if not alive.get(nme) and nme in got_fns:
            # a retained zero-sized block may keep the function alive
            fu = next(u for u in fb if name_of[u] == nme)
            if any(b.size for b in fb[fu]):
                viol.append({"key": "fn:function-without-code-kept",
                             "msg": nme})
    # entries
    exp_entries = expected_entries(case, lst)
    if expected_entries.kept_then_promoted:
        ctr["entries_handed_on_by_a_kept_zero_sized_entry"] = \
            expected_entries.kept_then_promoted
    for f in case.get("funcs", []):
        nme = f["name"]
        if nme not in got_fns:
            continue
        fu = next(u for u in fb if name_of[u] == nme)
        exp = sorted(exp_entries.get(nme, []))
        opt = expected_entries.optional.get(nme, set()) - set(exp)
        # a retained zero-sized block (documented) may stay an entry;
        # promotion across a data block deleted in the same rewrite is
        # accepted either way
        # (positions: a retained zero-sized entry and the promoted block
        # behind it stand at the same place)
        got = sorted({p for p, b in ((ob.blockpos(b), b) for b in fe[fu])
                      if p is not None and (b.size or p in exp)
                      and p not in opt})
        ctr["entries_compared"] += 1
        if got != exp:
            viol.append({
                "key": "fn:entries-differ:" + (
                    "missing" if set(exp) - set(got) else "extra"),
                "msg": f"{nme}: expected entry positions {exp} got {got}"})
    return viol, ctr


def after_data_ending_patch(case, eid):
    """was edit eid placed at the boundary at which an earlier-applied patch
    ended in data bytes (the library then inserts "into" that data block)?"""
    edits = case["edits"]
    if not (0 <= eid < len(edits)):
        return False
    e = edits[eid]
    if e.get("op") not in ("ins", "rep"):
        return False
    for k, o in enumerate(edits):
        if k == eid or o.get("op") not in ("ins", "rep") or \
                o.get("b") != e["b"] or "lines" not in o.get("p", {}):
            continue
        if o["i"] + o.get("n", 0) != e["i"] or not (
                (o["i"], k) < (e["i"], eid)):
            continue
        text = []
        for ln in o["p"]["lines"]:
            if "sec" in ln:
                break
            if "k" in ln:
                text.append(ln)
        if text and text[-1]["k"] == "bytes":
            return True
    return False


def lst_instr_index(lst):
    idx = getattr(lst, "_instr_index", None)
    if idx is None:
        idx = {}
        for si, ii, t in lst.all_tokens():
            if t.t == "I":
                idx.setdefault((si, t.pos), []).append(t)
        lst._instr_index = idx
    return idx


def expected_entries(case, lst):
    """function name -> list of expected entry block positions"""
    order = {}
    seq = {}
    for si, sec in enumerate(case["secs"]):
        k = 0
        for iv in sec["ivs"]:
            for b in iv["blocks"]:
                order[b["id"]] = (si, k)
                seq[(si, k)] = b
                k += 1
    bpos = {}
    for si, ii, t in lst.all_tokens():
        if t.t == "B":
            bpos[t.bid] = (si, t.pos)
    fn_of = {b: f["name"] for f in case.get("funcs", []) for b in f["blocks"]}
    # blocks that a surviving original instruction branches to or calls:
    # deleted in front of data they must be kept (documented), and go away -
    # handing the entry role on - once that data is deleted too
    label_block = {l: b["id"] for b in seq.values() for l in b["labels"]}
    targeted = set()
    for si, ii, t in lst.all_tokens():
        if t.t == "I" and t.patch is None and t.kind in (
                "jmp", "jcc", "call") and t.target in label_block and \
                t.bid != label_block[t.target]:
            targeted.add(label_block[t.target])
    res = {}
    optional = {}
    expected_entries.kept_then_promoted = 0
    for f in case.get("funcs", []):
        out = set()
        opt = set()
        for b in f["entries"]:
            cur = b
            skipped_data = False
            while True:
                if cur in lst.proxy_deleted:
                    break
                si, k = order[cur]
                nb = seq.get((si, k + 1))
                if cur not in lst.deleted_blocks:
                    if not seq[(si, k)]["items"] and nb is not None and \
                            nb["id"] in lst.deleted_blocks and \
                            nb["id"] not in lst.proxy_deleted:
                        # a zero-sized block goes away with the deleted block
                        # behind it: an entry that was promoted onto it is
                        # promoted once more or lost, either is accepted
                        opt.add(bpos[cur])
                        skipped_data = True
                    else:
                        (opt if skipped_data else out).add(bpos[cur])
                        break
                # a data block deleted in the same rewrite is no longer
                # between the entry and the following code: promotion across
                # it is accepted either way
                kept_until_data_goes = (
                    cur in targeted and cur in lst.deleted_blocks and
                    bool(seq[order[cur]]["items"]))
                while nb is not None and not nb["code"] and (
                        nb["id"] in lst.deleted_blocks or
                        nb["id"] in lst.proxy_deleted):
                    if not kept_until_data_goes or \
                            nb["id"] in lst.proxy_deleted:
                        skipped_data = True
                    else:
                        expected_entries.kept_then_promoted += 1
                    k += 1
                    nb = seq.get((si, k + 1))
                if nb is None or not nb["code"] or \
                        fn_of.get(nb["id"]) != f["name"]:
                    break
                cur = nb["id"]
        res[f["name"]] = sorted(out)
        optional[f["name"]] = opt
    expected_entries.optional = optional
    return res
