"""
Oracles comparing the edited listing model with the flattened output module.
Each returns a list of {"key": mechanism-signature, "msg": text} plus counters.
"""
import traceback

from . import irbuild, irview, rewrite, vocab


# ------------------------------------------------------------------ helpers
def edit_context(case):
    """per block: summary of what edits touch it (for mechanism keys)"""
    ctx = {}
    for e in case["edits"]:
        if e["op"] == "delfn":
            f = next(f for f in case["funcs"] if f["name"] == e["f"])
            for b in f["blocks"]:
                ctx.setdefault(b, set()).add("delfn")
            continue
        b = e["b"]
        tags = ctx.setdefault(b, set())
        blk = None
        for s in case["secs"]:
            for iv in s["ivs"]:
                for bb in iv["blocks"]:
                    if bb["id"] == b:
                        blk = bb
        n = len(blk["items"])
        if e["op"] == "ins":
            tags.add("ins@0" if e["i"] == 0 else
                     "ins@end" if e["i"] == n else "ins@mid")
        elif e["op"] == "rep":
            tags.add("rep-all" if e["n"] == n else
                     "rep-head" if e["i"] == 0 else
                     "rep-tail" if e["i"] + e["n"] == n else "rep-mid")
        else:
            if e.get("proxy"):
                tags.add("del-proxy")
            elif e["n"] == n and n:
                tags.add("del-whole")
            elif e["i"] == 0:
                tags.add("del-head")
            elif e["i"] + e["n"] == n:
                tags.add("del-tail")
            else:
                tags.add("del-mid")
    return ctx


def ctx_tag(ectx, bid):
    tags = ectx.get(bid)
    return "+".join(sorted(tags)) if tags else "unedited"


def classify_apply_exception(case, exc):
    """signature of an exception that came out of apply()"""
    tb = traceback.extract_tb(exc.__traceback__)
    frames = [f for f in tb if f.filename.startswith("/repo/src")]
    where = "?"
    if frames:
        f = frames[-1]
        where = f"{f.filename.rsplit('/', 1)[-1]}:{f.name}"
    name = type(exc).__name__
    if name == "AssertionError" and where == "rewriting.py:_apply_modifications":
        # loud refusal: a modification registered at/after the end of a
        # deletion that consumed the rest of the block
        per = {}
        for e in case["edits"]:
            if e["op"] != "delfn":
                per.setdefault(e["b"], []).append(e)
        for b, es in per.items():
            n = None
            for s in case["secs"]:
                for iv in s["ivs"]:
                    for bb in iv["blocks"]:
                        if bb["id"] == b:
                            n = len(bb["items"])
            dels = [e for e in es if e["op"] == "del"
                    and e["i"] + e["n"] == n]
            later = [e for e in es if e["op"] in ("ins", "rep")
                     and e["i"] == n] + [
                e for e in es if e["op"] == "del" and e["n"] == 0
                and e["i"] == n]
            if dels and later:
                return "refused", "refused:mod-after-block-end-deletion"
    if name == "UnsupportedAssemblyError" and \
            "cannot be data blocks" in str(exc):
        # loud refusal: a patch branches to / calls a label that, in the
        # edited listing, no longer stands in front of code
        lst = rewrite.expected(case)
        lst.layout()
        follows_code = {}
        for si in range(len(lst.secs)):
            seq = [t for ivs in [lst.secs[si]] for toks in ivs for t in toks]
            for k, t in enumerate(seq):
                if t.t == "L":
                    nxt = next((u for u in seq[k + 1:] if u.t in "ID"), None)
                    follows_code[t.name] = nxt is not None and nxt.t == "I"
        for e in case["edits"]:
            for ln in e.get("p", {}).get("lines", []):
                if ln.get("k") in ("jmp", "jne", "call") and \
                        follows_code.get(ln.get("t")) is False:
                    return "refused", "refused:branch-target-not-code"
    return "raised", f"apply-raises:{name}@{where}"


# ------------------------------------------------------------------ C01
def check_bytes(run, lst, ob, exp_bytes):
    viol = []
    ctr = {"intervals_compared": 0, "bytes_compared": 0,
           "markers_checked": 0}
    isa = run.case["isa"]
    for si, row in enumerate(exp_bytes):
        for ii, exp in enumerate(row):
            got = ob.bytes[si][ii]
            ctr["intervals_compared"] += 1
            ctr["bytes_compared"] += len(exp)
            if got == exp:
                continue
            # locate the first difference and the token expected there
            k = 0
            while k < min(len(got), len(exp)) and got[k] == exp[k]:
                k += 1
            tok = None
            for t in lst.secs[si][ii]:
                if t.t in "ID" and t.ivpos <= k < t.ivpos + max(t.size, 1):
                    tok = t
            origin = "end" if tok is None else (
                "patch" if tok.patch is not None else "orig")
            kind = ("shorter" if len(got) < len(exp) else
                    "longer" if len(got) > len(exp) else "content")
            viol.append({
                "key": f"bytes:{kind}:at-{origin}",
                "msg": f"sec {si} iv {ii}: expected {exp.hex()} got "
                       f"{got.hex()} first diff at {k}"})
    # extra intervals must be empty in this workload (no other-section data)
    exp_extra = getattr(lst, "expected_extra", {})
    for si, row in enumerate(ob.extra):
        want = sorted(exp_extra.get(ob.sec_names[si], []))
        if sorted(row) != want:
            viol.append({"key": "bytes:unexpected-new-interval",
                         "msg": f"section {ob.sec_names[si]}: {row} != {want}"
                         })
    # exactly-once markers
    allbytes = b"\0\0\0\0".join(b for row in ob.bytes for b in row)
    for si, ii, t in lst.all_tokens():
        if t.t == "I" and t.key == "mark" and t.patch is not None:
            ctr["markers_checked"] += 1
            c = allbytes.count(t.data)
            if c != 1:
                viol.append({"key": f"bytes:marker-count-{min(c, 2)}",
                             "msg": f"marker {t.data.hex()} x{c}"})
    return viol, ctr


# ------------------------------------------------------------------ C02
def final_label_names(run, lst):
    """model label name -> module symbol name (temp labels get a suffix)"""
    names = {}
    for a in run.rec.assembled:
        if a["summary"]:
            for (name, sec, off, at_end) in a["summary"]["symbols"]:
                names.setdefault(name, name)
    return names


def check_symbols(run, lst, ob):
    viol = []
    ctr = {"labels_compared": 0, "proxy_labels_compared": 0,
           "dontcare5": 0}
    case = run.case
    ectx = edit_context(case)
    labels = lst.label_positions()
    orig_extern = set(case.get("externs", []))
    # neighbours deleted with proxy (don't-care 5)
    proxy_blocks = set(lst.proxy_deleted)
    order = {}   # bid -> (sec, index in section order)
    for si, sec in enumerate(case["secs"]):
        k = 0
        for iv in sec["ivs"]:
            for b in iv["blocks"]:
                order[b["id"]] = (si, k)
                k += 1
    by_order = {v: k for k, v in order.items()}

    def slid_onto_proxy(tok):
        """label of a wholly deleted block whose next block(s) are deleted,
        the first surviving or proxy-deleted one being proxy-deleted"""
        if tok.bid is None or tok.bid not in lst.deleted_blocks:
            return None
        si, k = order[tok.bid]
        while True:
            k += 1
            nb = by_order.get((si, k))
            if nb is None:
                return None
            if nb in proxy_blocks:
                return nb
            if nb in lst.deleted_blocks:
                continue
            return None


    # geometry helpers for mechanism keys
    tok_seq = {}
    for si, ii, t in lst.all_tokens():
        tok_seq.setdefault(si, []).append(t)

    def relation(tok, exp, got):
        if tok is None:
            return "other"
        seq = tok_seq[exp[1]]
        idx = next(k for k, t in enumerate(seq) if t is tok)
        if got[0] == "proxy":
            # is the next original block (after this label) proxy-deleted?
            nxt = None
            for t in seq[idx + 1:]:
                if t.t == "B":
                    if t.bid in lst.deleted_blocks and \
                            t.bid not in proxy_blocks:
                        continue
                    nxt = t.bid
                    break
                if t.t in "ID" and t.patch is None:
                    break
            if nxt in proxy_blocks:
                return "on-proxy-of-following-deleted-block"
            return "on-proxy"
        if got[0] != "pos":
            return got[0]
        if got[1] != exp[1]:
            return "other-section"
        if tok.bid is not None and tok.at_end:
            # start of the owning block's region
            j = idx
            while j > 0 and not (seq[j].t == "B" and seq[j].bid == tok.bid):
                j -= 1
            first = next((t for t in seq[j:] if t.t in "ID"), None)
            if first is not None and first.pos <= got[2] < exp[2]:
                return "end-label-moved-into-own-block"
        if got[2] > exp[2]:
            between = [t for t in seq[idx + 1:]
                       if t.t in "ID" and t.pos < got[2]]
            if between and all(t.patch is not None for t in between) and \
                    sum(t.size for t in between) == got[2] - exp[2]:
                return "after-later-insertion"
            return "later"
        return "earlier"

    label_toks = {}
    for si, ii, t in lst.all_tokens():
        if t.t == "L":
            label_toks[t.name] = t
    proxies_seen = {}
    for name, exp in labels.items():
        got = ob.symbols.get(name)
        tok = label_toks.get(name)
        where = "start"
        if tok is not None and tok.patch is not None:
            seq = tok_seq[exp[1]] if exp[0] == "pos" else []
            k = next((k for k, t in enumerate(seq) if t is tok), None)
            rest = seq[k + 1:] if k is not None else []
            trailing = True
            for t in rest:
                if t.patch != tok.patch:
                    break
                if t.t in "ID":
                    trailing = False
                    break
            where = "patch-trailing" if trailing else "patch-inner"
        elif tok is not None and tok.at_end:
            where = "end"
        tag = ctx_tag(ectx, tok.bid) if tok is not None and \
            tok.bid is not None else ("patchlabel" if tok is not None
                                      else "proxydel")
        if got is None and tok is not None and tok.patch is not None \
                and not tok.pglobal:
            # temporary label: final name carries the patch suffix
            cands = [n for n in ob.symbols if n.startswith(name + "_")]
            if len(cands) == 1:
                got = ob.symbols[cands[0]]
        if not got:
            viol.append({"key": f"symbol-missing:{where}:{tag}",
                         "msg": f"{name} not in module"})
            continue
        if len(got) != 1:
            viol.append({"key": "symbol-duplicated-name",
                         "msg": f"{name}: {got}"})
            continue
        got = got[0]
        if exp[0] == "pos":
            ctr["labels_compared"] += 1
            if got[0] == "pos" and (got[1], got[2]) == (exp[1], exp[2]):
                continue
            nb = slid_onto_proxy(tok) if tok is not None else None
            if nb is not None and got[0] == "proxy":
                ctr["dontcare5"] += 1
                proxies_seen.setdefault(nb, set()).add(got[1])
                continue
            rel = relation(tok, exp, got)
            viol.append({
                "key": f"symbol-moved:{where}:{rel}",
                "msg": f"{name}: expected {exp} got {got[:3]} "
                       f"(block edits: {tag})"})
        else:  # proxydel
            ctr["proxy_labels_compared"] += 1
            bid = exp[1]
            if got[0] != "proxy":
                viol.append({"key": f"symbol-not-proxied:{got[0]}",
                             "msg": f"{name}: expected proxy of deleted "
                                    f"block {bid}, got {got[:3]}"})
                continue
            if not got[2]:
                viol.append({"key": "symbol-proxy-not-in-module",
                             "msg": name})
            if got[3][0] == "extern":
                viol.append({"key": "symbol-proxy-not-fresh",
                             "msg": f"{name} -> {got[3]}"})
            proxies_seen.setdefault(bid, set()).add(got[1])
    # one fresh proxy per deleted block, distinct between blocks
    ids = {}
    for bid, ps in proxies_seen.items():
        if len(ps) > 1:
            viol.append({"key": "symbol-proxy-split",
                         "msg": f"labels of deleted block {bid} on "
                                f"{len(ps)} proxies"})
        for p in ps:
            if p in ids and ids[p] != bid:
                viol.append({"key": "symbol-proxy-shared",
                             "msg": f"blocks {bid} and {ids[p]} share a "
                                    f"proxy"})
            ids[p] = bid
    # every symbol of the module is attached
    for name, gots in ob.symbols.items():
        for got in gots:
            if got[0] == "detached":
                viol.append({"key": "symbol-referent-detached",
                             "msg": name})
            elif got[0] == "none":
                viol.append({"key": "symbol-referent-none", "msg": name})
            elif got[0] == "proxy" and not got[2]:
                viol.append({"key": "symbol-proxy-not-in-module",
                             "msg": name})
        if name not in labels and name not in orig_extern:
            if not any(name.startswith(n + "_") for n in labels):
                viol.append({"key": "symbol-unexpected",
                             "msg": f"{name}: {gots}"})
    return viol, ctr
