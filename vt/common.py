"""Shared paths and helpers for the verification framework."""
import hashlib
import json
import os
import subprocess
import sys

VERIF = os.path.dirname(os.path.dirname(os.path.abspath(__file__)))
REPO = "/repo"
DEPS = os.path.join(VERIF, ".deps")
WORK = os.path.join(VERIF, ".work")
EVIDENCE = os.path.join(VERIF, "evidence")
REPLAYS = os.path.join(VERIF, "replays")
KNOWN = os.path.join(VERIF, "known_findings.json")
GUARD = "GTIRB_REWRITING_VERIF"
PY = "/venv/bin/python"


def ensure_deps():
    """Make icontract importable (appended, never prepended)."""
    if not os.path.isdir(os.path.join(DEPS, "icontract")):
        subprocess.run(
            [os.path.join(VERIF, "setup.sh")],
            stdout=subprocess.DEVNULL,
            stderr=subprocess.DEVNULL,
            check=False,
        )
    if DEPS not in sys.path:
        sys.path.append(DEPS)


def stable_hash(obj) -> str:
    return hashlib.sha256(
        json.dumps(obj, sort_keys=True, default=str).encode()
    ).hexdigest()[:16]


def jdump(obj, path):
    tmp = path + ".tmp"
    with open(tmp, "w") as f:
        json.dump(obj, f, indent=1, sort_keys=True, default=str)
    os.replace(tmp, path)
