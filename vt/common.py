"""Shared paths and helpers for the verification framework."""
import hashlib
import json
import os
import subprocess
import sys

VERIF = os.path.dirname(os.path.dirname(os.path.abspath(__file__)))
# VERIF_REPO / VERIF_OUT exist only for testing the checks against a scratch
# copy of the repository with a deliberate change applied (tools/seedtest.py);
# registered commands never set them, so evidence always describes /repo.
REPO = os.environ.get("VERIF_REPO", "/repo")
REPO_SRC = os.path.join(REPO, "src")
DEPS = os.path.join(VERIF, ".deps")
WORK = os.path.join(VERIF, ".work")
_OUT = os.environ.get("VERIF_OUT") or VERIF
if REPO != "/repo" and _OUT == VERIF:
    raise SystemExit("VERIF_REPO set without VERIF_OUT")
EVIDENCE = os.path.join(_OUT, "evidence")
REPLAYS = os.path.join(_OUT, "replays")
KNOWN = os.path.join(VERIF, "known_findings.json")
GUARD = "GTIRB_REWRITING_VERIF"
PY = "/venv/bin/python"


def ensure_deps():
    """Make icontract importable (appended, never prepended)."""
    if not os.path.isdir(os.path.join(DEPS, "icontract")):
        subprocess.run(
            [os.path.join(VERIF, "setup.sh")],
            stdout=subprocess.DEVNULL,
            stderr=subprocess.DEVNULL,
            check=False,
        )
    if DEPS not in sys.path:
        sys.path.append(DEPS)


def stable_hash(obj) -> str:
    return hashlib.sha256(
        json.dumps(obj, sort_keys=True, default=str).encode()
    ).hexdigest()[:16]


def jdump(obj, path):
    tmp = path + ".tmp"
    with open(tmp, "w") as f:
        json.dump(obj, f, indent=1, sort_keys=True, default=str)
    os.replace(tmp, path)
