"""
The listing model (LM): a module is a list of sections, each a list of byte
intervals, each a flat list of tokens (labels, instructions, data chunks,
block marks).  Edits are list splices.  From the edited listing the model
derives bytes, label positions, the per-instruction control-flow relation,
annotation positions and function attribution.  Nothing here imports the
library under test.
"""
from dataclasses import dataclass, field
from typing import Dict, List, Optional, Tuple

from . import vocab

FLOW_KINDS = ("jmp", "jcc", "call", "ret", "ijmp", "icall", "syscall")


@dataclass
class Tok:
    t: str                       # "L" label, "I" instruction, "D" data, "B" mark
    name: str = ""               # L: label name
    bid: Optional[int] = None    # owning original block (None: patch)
    at_end: bool = False         # L: at_end label of block bid
    key: str = ""                # I: vocab key
    kind: str = ""               # I: flow kind
    data: bytes = b""            # I/D: bytes
    target: Optional[str] = None  # I/D: symbolic operand / branch target
    addend: int = 0
    sym: Optional[Tuple[int, int]] = None  # (offset, size) of symbolic field
    fn: Optional[str] = None     # function attribution
    uid: tuple = ()              # unique id ("o", bid, idx) | ("p", inv, idx)
    patch: Optional[int] = None  # invocation number when from a patch
    ann: Dict[str, object] = field(default_factory=dict)
    code: bool = True            # B: block kind ; D tokens: False
    pglobal: bool = True         # L from patch: global (not temp) label
    site: Optional[tuple] = None  # patch tokens: (bid, item index) of the edit
    # filled by layout():
    pos: int = -1                # linear offset inside section
    ivpos: int = -1              # offset inside interval

    @property
    def size(self):
        return len(self.data)

    @property
    def uncovered(self):
        """bytes at the start of an interval that no block covers"""
        return bool(self.uid) and self.uid[0] == "u"


class Listing:
    """tokens[sec_index][iv_index] -> list of Tok"""

    def __init__(self, case):
        self.case = case
        self.isa = case["isa"]
        self.secs = []
        self.block_fn = {}
        self.block_entry = set()
        self.block_info = {}
        for f in case.get("funcs", []):
            for b in f["blocks"]:
                self.block_fn[b] = f["name"]
            for b in f["entries"]:
                self.block_entry.add(b)
        for si, sec in enumerate(case["secs"]):
            ivs = []
            for ii, iv in enumerate(sec["ivs"]):
                toks = []
                if iv.get("lead"):
                    # bytes at the start of the interval that no block covers
                    toks.append(Tok("D", data=b"\xcc" * iv["lead"],
                                    uid=("u", si, ii), code=False))
                for blk in iv["blocks"]:
                    bid = blk["id"]
                    self.block_info[bid] = dict(
                        blk=blk, sec=si, iv=ii, code=blk["code"])
                    toks.append(Tok("B", bid=bid, code=blk["code"]))
                    for name in blk.get("labels", []):
                        toks.append(Tok("L", name=name, bid=bid))
                    for idx, it in enumerate(blk["items"]):
                        toks.append(self._item_tok(blk, idx, it))
                    for name in blk.get("elabels", []):
                        toks.append(Tok("L", name=name, bid=bid, at_end=True))
                ivs.append(toks)
            self.secs.append(ivs)
        self.other = []            # other-section data emitted by patches
        self.proxy_deleted = {}    # bid -> set(label names)
        self.deleted_blocks = set()
        self.invocations = []      # list of dict(inv, bid, i, lines)

    # ------------------------------------------------------------ tokens
    def _item_tok(self, blk, idx, it):
        bid = blk["id"]
        if blk["code"]:
            e = vocab.VOCAB[self.isa][it["k"]]
            return Tok("I", bid=bid, key=it["k"], kind=e["kind"],
                       data=vocab.encode(self.isa, it["k"], it.get("imm")),
                       target=it.get("t"), addend=it.get("add", 0),
                       sym=e["sym"] if it.get("t") else None,
                       fn=self.block_fn.get(bid), uid=("o", bid, idx),
                       ann=dict(it.get("ann", {})))
        if it["k"] == "bytes":
            return Tok("D", bid=bid, data=bytes.fromhex(it["hex"]),
                       uid=("o", bid, idx), code=False,
                       ann=dict(it.get("ann", {})))
        size = it.get("size", 8)
        return Tok("D", bid=bid, data=bytes(size), target=it["t"],
                   addend=it.get("add", 0), sym=(0, size),
                   uid=("o", bid, idx), code=False,
                   ann=dict(it.get("ann", {})))

    def patch_tokens(self, lines, inv, fn, code=True, other=None):
        """tokens for one invocation of a text patch; what the patch puts
        into other sections (everything behind a {"sec": name} line) is not
        part of the splice and is recorded in `other` when given"""
        out = []
        k = 0
        osec = None
        blob = None
        for ln in lines:
            if "sec" in ln:
                osec = ln["sec"]
                blob = {"sec": osec, "inv": inv, "data": bytearray(),
                        "labels": []}
                if other is not None:
                    other.append(blob)
                continue
            if osec is not None:
                if "l" in ln:
                    blob["labels"].append(
                        (ln["l"], len(blob["data"]),
                         Tok("L", name=ln["l"], bid=None, patch=inv,
                             pglobal=not ln.get("temp", False))))
                elif ln.get("k") == "bytes":
                    blob["data"] += bytes.fromhex(ln["hex"])
                continue
            if "l" in ln:
                out.append(Tok("L", name=ln["l"], bid=None, patch=inv,
                               pglobal=not ln.get("temp", False)))
                continue
            if "raw" in ln or "d" in ln:
                continue      # directive without bytes (CFI, alignment)
            if ln.get("k") == "bytes":
                out.append(Tok("D", data=bytes.fromhex(ln["hex"]),
                               uid=("p", inv, k), patch=inv, code=False))
                k += 1
                continue
            e = vocab.VOCAB[self.isa][ln["k"]]
            out.append(Tok("I", key=ln["k"], kind=e["kind"],
                           data=vocab.encode(self.isa, ln["k"],
                                             ln.get("imm")),
                           target=ln.get("t"), addend=ln.get("add", 0),
                           sym=e["sym"] if ln.get("t") else None, fn=fn,
                           uid=("p", inv, k), patch=inv))
            k += 1
        return out

    # ------------------------------------------------------------ queries
    def find_block(self, bid):
        info = self.block_info[bid]
        toks = self.secs[info["sec"]][info["iv"]]
        start = next(i for i, t in enumerate(toks)
                     if t.t == "B" and t.bid == bid)
        end = start + 1
        while end < len(toks) and not (toks[end].t == "B"):
            # patch tokens inserted earlier carry bid None; they belong to
            # the block they were inserted into
            end += 1
        return toks, start, end

    def block_items(self, bid):
        """original byte-carrying tokens of block bid still present"""
        toks, s, e = self.find_block(bid)
        return [t for t in toks[s:e] if t.t in "ID" and t.bid == bid]

    def item_offsets(self, bid):
        """byte offsets of item boundaries in the ORIGINAL block"""
        blk = self.block_info[bid]["blk"]
        offs = [0]
        for idx, it in enumerate(blk["items"]):
            offs.append(offs[-1] + self._item_tok(blk, idx, it).size)
        return offs

    # ------------------------------------------------------------ edits
    def apply_block_edits(self, bid, mods):
        """
        mods: list of dict(id, op, i, n, proxy, toks) for one block, any
        order.  Applies them as the listing convention prescribes.
        """
        toks, s, e = self.find_block(bid)
        seg = toks[s:e]
        head = [seg[0]]
        start_labels = [t for t in seg[1:] if t.t == "L" and not t.at_end
                        and t.bid == bid]
        end_labels = [t for t in seg[1:] if t.t == "L" and t.at_end
                      and t.bid == bid]
        items = [t for t in seg[1:] if t.t in "ID"]
        n = len(items)
        mods = sorted(mods, key=lambda m: (m["i"], m["id"]))
        removed = [False] * n
        inserts = {i: [] for i in range(n + 1)}
        whole_proxy = False
        for m in mods:
            if m["op"] in ("ins", "rep"):
                inserts[m["i"]].extend(m["toks"])
            if m["op"] in ("rep", "del"):
                for j in range(m["i"], m["i"] + m["n"]):
                    assert not removed[j], "overlapping edits"
                    removed[j] = True
                if m["op"] == "del" and m.get("proxy"):
                    whole_proxy = True
        body = []
        for i in range(n + 1):
            body.extend(inserts[i])
            if i < n and not removed[i]:
                body.append(items[i])
        if whole_proxy:
            names = {t.name for t in start_labels + end_labels}
            self.proxy_deleted[bid] = names
            start_labels, end_labels = [], []
        if all(removed) and n and not any(inserts.values()):
            self.deleted_blocks.add(bid)
        new = head + start_labels + body + end_labels
        toks[s:e] = new

    # ------------------------------------------------------------ layout
    def layout(self):
        """assign positions; returns per-section per-interval bytes"""
        out = []
        for ivs in self.secs:
            lin = 0
            sec_bytes = []
            for toks in ivs:
                off = 0
                loff = 0
                buf = bytearray()
                for t in toks:
                    t.pos = lin + loff
                    t.ivpos = off
                    if t.t in "ID":
                        buf += t.data
                        off += t.size
                        # bytes no block covers behave like an address gap:
                        # they take no part in the linear positions
                        if not t.uncovered:
                            loff += t.size
                lin += loff
                sec_bytes.append(bytes(buf))
            out.append(sec_bytes)
        return out

    def all_tokens(self):
        for si, ivs in enumerate(self.secs):
            for ii, toks in enumerate(ivs):
                for t in toks:
                    yield si, ii, t

    def label_positions(self):
        """name -> ("pos", sec, lin) ; proxy-deleted labels separately"""
        res = {}
        for si, ii, t in self.all_tokens():
            if t.t == "L":
                res[t.name] = ("pos", si, t.pos)
        for bid, names in self.proxy_deleted.items():
            for nme in names:
                res[nme] = ("proxydel", bid)
        for blob in self.other:
            for nme, off, _ in blob["labels"]:
                res[nme] = ("other", blob["sec"], blob["inv"], off)
        return res

    @property
    def expected_extra(self):
        """section name -> byte strings of the intervals patches add there"""
        res = {}
        for blob in self.other:
            res.setdefault(blob["sec"], []).append(bytes(blob["data"]))
        return res

    def other_label(self, name):
        for blob in self.other:
            for nme, off, tok in blob["labels"]:
                if nme == name:
                    return tok, blob, off
        return None

    def code_stream(self, si):
        """byte-carrying tokens of a section in order, with a flag telling
        whether the token is physically followed (contiguously) by the next"""
        seq = []
        ivs = self.secs[si]
        for ii, toks in enumerate(ivs):
            body = [t for t in toks if t.t in "ID" and not t.uncovered]
            for k, t in enumerate(body):
                contiguous = True
                if k == len(body) - 1:
                    nxt = (self.case["secs"][si]["ivs"][ii + 1]
                           if ii + 1 < len(ivs) else None)
                    contiguous = nxt is not None and \
                        nxt.get("gap", 0) == 0 and not nxt.get("lead")
                seq.append((t, contiguous))
        return seq
