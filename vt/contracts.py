"""
icontract class invariants attached from the harness (no repository edit) to
the repository's own cache classes.  Every invariant only reads.  The number
of evaluations is counted; zero evaluations is inconclusive.
"""
import gtirb

from . import common

common.ensure_deps()
import icontract  # noqa: E402

COUNTS = {"ReturnEdgeCache": 0, "BlockOrdering": 0, "ReferenceCache": 0}
VIOLATIONS = []
_installed = False


class ContractBroken(Exception):
    pass


def _record(cls, what):
    VIOLATIONS.append((cls, what))
    return True   # recording contracts never raise inside the SUT


def return_cache_matches_scan(self):
    COUNTS["ReturnEdgeCache"] += 1
    ret = {}
    pret = {}
    for e in gtirb.CFG.__iter__(self):
        if e.label is not None and e.label.type == gtirb.Edge.Type.Return:
            ret.setdefault(e.source, set()).add(e)
            if isinstance(e.target, gtirb.ProxyBlock):
                pret.setdefault(e.source, set()).add(e)
    have = {k: set(v) for k, v in self._return_edges.items() if v}
    phave = {k: set(v) for k, v in self._proxy_return_edges.items() if v}
    if have != ret:
        return _record("ReturnEdgeCache", "return index differs from scan")
    if phave != pret:
        return _record("ReturnEdgeCache",
                       "proxy return index differs from scan")
    return True


def block_ordering_links_mutual(self):
    COUNTS["BlockOrdering"] += 1
    order = self._BlockOrdering__order
    values = set()
    for block, node in order.items():
        if node.value is not block:
            return _record("BlockOrdering", "node value is not its key")
        values.add(id(block))
        if node.prev is not None and node.prev.next is not node:
            return _record("BlockOrdering", "prev.next is not node")
        if node.next is not None and node.next.prev is not node:
            return _record("BlockOrdering", "next.prev is not node")
        for nb in (node.prev, node.next):
            if nb is not None and nb.value not in order:
                return _record("BlockOrdering",
                               "linked to a block that is not ordered")
    return True


def reference_cache_wellformed(self):
    COUNTS["ReferenceCache"] += 1
    from gtirb_rewriting._modify.cache import RefNode
    seen_syms = {}
    for block, (start, end) in self._references.items():
        for root in (start, end):
            if root.parent is not block:
                return _record("ReferenceCache", "root parent is not block")
            stack = [root]
            visited = set()
            while stack:
                n = stack.pop()
                if id(n) in visited:
                    return _record("ReferenceCache", "cycle in tree")
                visited.add(id(n))
                for s in n.symbols:
                    if id(s) in seen_syms:
                        return _record("ReferenceCache",
                                       "symbol in two nodes")
                    seen_syms[id(s)] = n
                    if self._referents.get(s) is not n:
                        return _record("ReferenceCache",
                                       "symbol node not in _referents")
                for c in n.children:
                    if c.parent is not n:
                        return _record("ReferenceCache",
                                       "child parent link not mutual")
                    stack.append(c)
    for s, n in self._referents.items():
        if s.referent is not None:
            return _record("ReferenceCache",
                           "indirect symbol has a direct referent")
        if id(s) not in seen_syms:
            # node must be reachable from a root present in _references
            p = n
            hops = 0
            while isinstance(p, RefNode) and hops < 10000:
                p = p.parent
                hops += 1
            if not isinstance(p, gtirb.Block) or p not in self._references:
                return _record("ReferenceCache",
                               "indirect symbol not rooted at a block")
    return True


def install():
    global _installed
    if _installed:
        return
    from gtirb_rewriting._adt.block_ordering import BlockOrdering
    from gtirb_rewriting._modify.cache import ReferenceCache, ReturnEdgeCache
    icontract.invariant(return_cache_matches_scan,
                        error=ContractBroken)(ReturnEdgeCache)
    icontract.invariant(block_ordering_links_mutual,
                        error=ContractBroken)(BlockOrdering)
    icontract.invariant(reference_cache_wellformed,
                        error=ContractBroken)(ReferenceCache)
    _installed = True


def drain():
    v = list(VIOLATIONS)
    VIOLATIONS.clear()
    return v
