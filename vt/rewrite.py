"""
Drives the real library on a case: builds the module, registers the edits
through the public API, records every patch invocation (wrapping
RewritingContext._invoke_patch), applies, and mirrors the edits on the
listing model.
"""
import copy
import uuid as uuidlib

import gtirb
import gtirb_functions

from . import irbuild, irview, vocab
from .listing import Listing

_installed = False
_current = None


class Recorder:
    def __init__(self):
        self.invocations = []   # patch callbacks (get_asm called)
        self.assembled = []     # _invoke_patch results
        self.fault_at = None    # raise in k-th callback (1-based)
        self.fault_kind = "raise"
        self.callbacks = 0


class InjectedFault(Exception):
    pass


def install():
    """wrap RewritingContext._invoke_patch once per process"""
    global _installed
    if _installed:
        return
    from gtirb_rewriting.rewriting import RewritingContext
    orig = RewritingContext._invoke_patch

    def wrapper(self, patch, actual_block, actual_offset, context, **kw):
        result = orig(self, patch, actual_block, actual_offset, context, **kw)
        rec = _current
        if rec is not None:
            rec.assembled.append(dict(
                patch=patch, block=actual_block, offset=actual_offset,
                ctx=context, summary=summarize(result) if result else None))
        return result

    RewritingContext._invoke_patch = wrapper
    _installed = True


def summarize(result):
    ts = result.text_section
    blocks = list(ts.blocks)
    syms = []
    for s in result.symbols:
        r = s.referent
        sec = None
        for sect in result.sections.values():
            if any(r is b for b in sect.blocks):
                sec = sect.name
        if isinstance(r, gtirb.ByteBlock):
            syms.append((s.name, sec, r.offset + (r.size if s.at_end else 0),
                         s.at_end))
        else:
            syms.append((s.name, None, None, s.at_end))

    def ex(e):
        if isinstance(e, gtirb.SymAddrConst):
            return ("const", e.symbol.name, e.offset,
                    tuple(sorted(str(a) for a in e.attributes)),
                    id(e.symbol))
        if isinstance(e, gtirb.SymAddrAddr):
            return ("addr", e.symbol1.name, e.symbol2.name, e.offset,
                    e.scale, tuple(sorted(str(a) for a in e.attributes)))
        return ("other", repr(e))
    return dict(
        text=bytes(ts.data), text_name=ts.name,
        blocks=[(b.offset, b.size, type(b).__name__) for b in blocks],
        symbols=syms,
        exprs={o: ex(e) for o, e in ts.symbolic_expressions.items()},
        sizes=dict(ts.symbolic_expression_sizes),
        others={name: dict(data=bytes(s.data),
                           exprs={o: ex(e) for o, e in
                                  s.symbolic_expressions.items()})
                for name, s in result.sections.items() if s is not ts},
    )


def patch_text(isa, lines, fmt="elf", intel=False):
    out = []
    for ln in lines:
        if "sec" in ln:
            name = ln["sec"]
            if name == ".data":
                out.append(".data")
            elif name == ".rodata":
                out.append('.section .rodata,"a",@progbits' if fmt == "elf"
                           else '.section .rodata,"dr"')
            else:
                out.append(f'.section {name},"aw",@progbits' if fmt == "elf"
                           else f'.section {name},"dw"')
        elif "l" in ln:
            out.append(f"{ln['l']}:")
        elif ln.get("k") == "bytes" and ln.get("as") == "ascii":
            # same bytes, written as a typed directive (the assembler
            # records an encoding for the block)
            out.append('.ascii "' + "".join(
                f"\\{x:03o}" for x in bytes.fromhex(ln["hex"])) + '"')
        elif ln.get("k") == "bytes":
            out.append(".byte " + ", ".join(
                str(x) for x in bytes.fromhex(ln["hex"])))
        elif "raw" in ln:
            out.append(ln["raw"])
        elif ln.get("d") == "balign":
            out.append(f".balign {ln['n']}")
        else:
            t = ln.get("t")
            if t is not None and ln.get("add"):
                t = f"{t}{ln['add']:+d}"
            out.append(vocab.asm_text(isa, ln["k"], t, ln.get("imm"),
                                      intel=intel))
    return "\n".join(out) + "\n"


def make_patch(isa, spec, eid, rec):
    from gtirb_rewriting import Constraints, Patch
    from gtirb_rewriting.assembly import X86Syntax

    cons = spec.get("cons") or {}

    class ModelPatch(Patch):
        def __init__(self):
            super().__init__(Constraints(
                clobbers_flags=cons.get("flags", False),
                clobbers_registers=set(cons.get("clobbers", [])),
                scratch_registers=cons.get("scratch", 0),
                align_stack=cons.get("align", False),
                preserve_caller_saved_registers=cons.get("caller", False),
                **({"x86_syntax": X86Syntax.INTEL} if spec.get("intel")
                   else {})))
            self.eid = eid

        def __str__(self):
            return f"ModelPatch#{eid}"

        def get_asm(self, ctx):
            rec.callbacks += 1
            rec.invocations.append(dict(
                eid=eid, block=ctx.block, offset=ctx.offset,
                function=ctx.function))
            if rec.fault_at == rec.callbacks:
                if rec.fault_kind == "raise":
                    raise InjectedFault(f"callback {rec.callbacks}")
                return "this is not assembly $$$\n"
            text = patch_text(isa, spec["lines"],
                              intel=bool(spec.get("intel")))
            if cons.get("scratch"):
                # make the output depend on which registers were handed out
                regs = ctx.scratch_registers
                tmpl = {"x64": "movq %{r}, %{r}\n", "ia32":
                        "movl %{r}, %{r}\n", "arm64": "mov {r}, {r}\n"}[isa]
                if spec.get("intel"):
                    tmpl = "mov {r}, {r}\n"
                text += "".join(tmpl.format(r=r) for r in regs)
            return text
    return ModelPatch()


class Run:
    pass


def register_edits(case, bu, ctx, rec, functions, order=None, extras=True):
    isa = case["isa"]
    fn_by_name = {}
    for f in functions:
        for s in f.get_name_symbols() if hasattr(f, "get_name_symbols") \
                else []:
            fn_by_name[s.name] = f
    for f in functions:
        fn_by_name.setdefault(f.get_name(), f)
    # names looked up through get_or_insert_extern_symbol that the module
    # already has (defined or extern): the existing symbol must come back
    if not extras:
        case = dict(case, extern_lookups=[], newfuncs=[])
    else:
        bu.extern_lookups = []
        bu.new_functions = {}
    for nme in case.get("extern_lookups", []):
        s = ctx.get_or_insert_extern_symbol(nme, "libverif.so")
        bu.extern_lookups.append((nme, s is bu.symbols.get(nme)))
    # whole functions added with register_insert_function
    for k, nf in enumerate(case.get("newfuncs", [])):
        bu.new_functions[nf["name"]] = ctx.register_insert_function(
            nf["name"], make_patch(isa, nf["p"], 1000 + k, rec))
    seq = list(enumerate(case["edits"]))
    if order is not None:
        seq = [(i, case["edits"][i]) for i in order]
    for eid, e in seq:
        if e["op"] == "delfn":
            ctx.delete_function(fn_by_name[e["f"]])
            continue
        blk = bu.blocks[e["b"]]
        offs = bu.item_offsets[e["b"]]
        off = offs[e["i"]]
        if e["op"] == "del":
            ctx.delete_at(blk, off, offs[e["i"] + e["n"]] - off,
                          retarget_to_proxy=e.get("proxy", False))
            continue
        p = e["p"]
        patch = bytes.fromhex(p["bytes"]) if "bytes" in p else make_patch(
            isa, p, eid, rec)
        if e["op"] == "ins" and e.get("via") == "fnscope":
            # same location through the declarative path: the entry block of
            # one named function (stored with the pattern scopes, not with
            # the per-block registrations)
            from gtirb_rewriting import (AllFunctionsScope, BlockPosition,
                                         FunctionPosition)
            # (ANYWHERE leaves the offset to the library, which takes the
            # first candidate: the block's start)
            ctx.register_insert(
                AllFunctionsScope(FunctionPosition.ENTRY,
                                  BlockPosition.ANYWHERE if e.get("anywhere")
                                  else BlockPosition.ENTRY,
                                  {fn_by_name[e["fn"]].get_name()}), patch)
        elif e["op"] == "ins":
            ctx.insert_at(blk, off, patch)
        else:
            ctx.replace_at(blk, off, offs[e["i"] + e["n"]] - off, patch)


def mirror_edits(case, lst):
    """apply the case's edits to the listing model"""
    per_block = {}
    eid = 0
    for idx, e in enumerate(case["edits"]):
        if e["op"] == "delfn":
            f = next(f for f in case["funcs"] if f["name"] == e["f"])
            for b in f["blocks"]:
                n = len(lst.block_info[b]["blk"]["items"])
                per_block.setdefault(b, []).append(
                    dict(id=(idx, b), op="del", i=0, n=n, proxy=True))
            continue
        m = dict(id=(idx, 0), op=e["op"], i=e["i"], n=e.get("n", 0),
                 proxy=e.get("proxy", False))
        if e["op"] in ("ins", "rep"):
            p = e["p"]
            blk = lst.block_info[e["b"]]
            if "bytes" in p:
                from .listing import Tok
                m["toks"] = [Tok("D", data=bytes.fromhex(p["bytes"]),
                                 uid=("p", idx, 0), patch=idx, code=False)]
            else:
                m["toks"] = lst.patch_tokens(
                    p["lines"], idx, lst.block_fn.get(e["b"])
                    if blk["code"] else None, other=lst.other)
        for t in m.get("toks", []):
            t.site = (e["b"], e["i"], e["i"] + e.get("n", 0))
        per_block.setdefault(e["b"], []).append(m)
    for b, mods in per_block.items():
        lst.apply_block_edits(b, mods)


def attach_bystander(case, bu, seed):
    """a second module in the same IR that the rewrite is not about: either
    a twin of the input (every symbol, section and function name occurs in
    both modules) or an unrelated generated module (possibly of another ISA).
    Its edges live in the same ir.cfg."""
    import random
    by = case["bystander"]
    if by == "twin":
        by = {k: v for k, v in case.items()
              if k not in ("edits", "newfuncs", "extern_lookups",
                           "bystander", "driver", "retargets")}
        by["edits"] = []
    bu2, _ = irbuild.build(by, random.Random(f"uuid-bystander:{seed}"))
    m2 = bu2.module
    m2.name = "zz-bystander"
    edges = list(bu2.ir.cfg)
    m2.ir = bu.ir
    bu.ir.cfg.update(edges)
    bu.bystander = m2
    bu.bystander_built = bu2


def bystander_changes(r):
    """facets of the bystander module that differ from before the rewrite"""
    if getattr(r, "by_before", None) is None:
        return None
    from . import canon
    after = canon.module_facets(r.bu.ir, r.bu.bystander) \
        if r.bu.bystander.ir is r.bu.ir else {}
    out = []
    for k in sorted(set(r.by_before) | set(after)):
        if k == "aux:leafFunctions":
            # the library's own bookkeeping table (what PassManager's context
            # for the other module leaves behind; exempt in C10 as well)
            continue
        if r.by_before.get(k) != after.get(k):
            out.append(k)
    return out


def run(case, fault_at=None, fault_kind="raise", seed=0, driver=None,
        before_apply=None, register_order=None):
    install()
    global _current
    import random
    rng = random.Random(f"uuid:{seed}")
    bu, lst0 = irbuild.build(case, rng)
    bu.item_offsets = {bid: lst0.item_offsets(bid) for bid in lst0.block_info}
    m = bu.module
    by_before = None
    if case.get("bystander"):
        from . import canon
        attach_bystander(case, bu, seed)
        by_before = canon.module_facets(bu.ir, bu.bystander)
    from gtirb_rewriting import RewritingContext
    have_fn = "functionEntries" in m.aux_data and "functionBlocks" in \
        m.aux_data
    functions = gtirb_functions.Function.build_functions(m) if have_fn else []
    rec = Recorder()
    rec.fault_at = fault_at
    rec.fault_kind = fault_kind
    r = Run()
    r.case, r.bu, r.lst0, r.rec = case, bu, lst0, rec
    r.functions = functions
    r.exception = None
    r.by_before = by_before
    r.orig_cfg = bu.ir.cfg
    _current = rec
    try:
        if case.get("driver") == "passes" and register_order is None:
            # the same rewrite through PassManager: two passes register the
            # modifications (first half / second half, so that registration
            # order is kept), the manager builds the functions and applies
            from gtirb_rewriting import Pass, PassManager
            n = len(case["edits"])
            halves = [list(range(0, (n + 1) // 2)),
                      list(range((n + 1) // 2, n))]

            class Half(Pass):
                def __init__(self, idxs, first):
                    self.idxs, self.first = idxs, first

                def begin_module(self, module, functions_, ctx_):
                    if module is not m:
                        return
                    if self.first:
                        r.ctx = ctx_
                        r.functions = functions_
                    register_edits(case, bu, ctx_, rec, functions_,
                                   self.idxs, extras=self.first)
                    if not self.first and before_apply:
                        before_apply(r)
            pm = PassManager()
            pm.add(Half(halves[0], True))
            pm.add(Half(halves[1], False))
            pm.run(bu.ir)
        else:
            ctx = RewritingContext(m, functions)
            r.ctx = ctx
            register_edits(case, bu, ctx, rec, functions, register_order)
            if before_apply:
                before_apply(r)
            ctx.apply()
    except Exception as exc:  # noqa
        r.exception = exc
    finally:
        _current = None
    return r


def expected(case):
    lst = Listing(case)
    mirror_edits(case, lst)
    return lst
