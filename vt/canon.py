"""
UUID-free canonical rendering of a GTIRB IR (used for protobuf round trips,
batch-vs-sequential, no-op identity, determinism, chunked assembly).
"""
import json
import re
import uuid as uuidlib

import gtirb

NULL = uuidlib.UUID(int=0)


class Canon:
    def __init__(self, ir, addresses=True, temp_suffix=False,
                 skip_tables=()):
        self.ir = ir
        self.addresses = addresses
        self.temp_suffix = temp_suffix
        self.skip_tables = set(skip_tables)
        self.ids = {}
        self.fn_names = {}

    # -------------------------------------------------------------- names
    def symname(self, name):
        if self.temp_suffix:
            return re.sub(r"_(\d+)$", "_N", name)
        return name

    def index(self, m):
        secs = sorted(m.sections, key=lambda s: s.name)
        for s in secs:
            self.ids[id(s)] = ("Sec", s.name)
            ivs = sorted(
                s.byte_intervals,
                key=lambda b: (
                    (b.address is None, b.address or 0)
                    if self.addresses else (False, 0), b.size,
                    bytes(b.contents),
                    sorted((x.offset, x.size, type(x).__name__,
                            tuple(sorted(r.name for r in x.references)))
                           for x in b.blocks)))
            for k, bi in enumerate(ivs):
                self.ids[id(bi)] = ("I", s.name, k)
                for b in bi.blocks:
                    kind = "C" if isinstance(b, gtirb.CodeBlock) else "D"
                    self.ids[id(b)] = ("B", s.name, k, b.offset, b.size,
                                       kind)
        for sym in m.symbols:
            self.ids[id(sym)] = ("S", self.symname(sym.name))
        fn = m.aux_data.get("functionNames")
        if fn is not None:
            for fu, sym in fn.data.items():
                if isinstance(sym, gtirb.Symbol):
                    self.fn_names[fu] = ("F", self.symname(sym.name))
        # proxies: by referring symbol names, else by touching edges
        names = {}
        for sym in m.symbols:
            if isinstance(sym.referent, gtirb.ProxyBlock):
                names.setdefault(id(sym.referent), []).append(
                    self.symname(sym.name))
        touch = {}
        for e in self.ir.cfg:
            for end, other, tag in ((e.target, e.source, "in"),
                                    (e.source, e.target, "out")):
                if isinstance(end, gtirb.ProxyBlock):
                    touch.setdefault(id(end), []).append(
                        (tag, self.ids.get(id(other), ("?",)),
                         str(e.label.type) if e.label else ""))
        for p in set(m.proxies) | {
                x for e in self.ir.cfg for x in (e.source, e.target)
                if isinstance(x, gtirb.ProxyBlock)}:
            if id(p) in names:
                self.ids[id(p)] = ("P", tuple(sorted(names[id(p)])))
            else:
                self.ids[id(p)] = ("P", "anon", tuple(sorted(
                    touch.get(id(p), []), key=repr)))

    def node(self, n):
        if id(n) in self.ids:
            return self.ids[id(n)]
        return ("DETACHED", type(n).__name__)

    def value(self, v):
        if isinstance(v, gtirb.Offset):
            return ("Off", self.value(v.element_id), v.displacement)
        if isinstance(v, gtirb.Node):
            return self.node(v)
        if isinstance(v, uuidlib.UUID):
            if v in self.fn_names:
                return self.fn_names[v]
            if v == NULL:
                return ("NULL",)
            return ("UUID",)
        if isinstance(v, dict) or hasattr(v, "items"):
            return sorted(([self.value(k), self.value(x)]
                           for k, x in v.items()), key=repr)
        if isinstance(v, (set, frozenset)):
            return sorted((self.value(x) for x in v), key=repr)
        if isinstance(v, (list, tuple)):
            return [self.value(x) for x in v]
        if isinstance(v, (bytes, bytearray)):
            return bytes(v).hex()
        if isinstance(v, str):
            return v
        if isinstance(v, (int, float, bool)) or v is None:
            return v
        return repr(v)

    def expr(self, e):
        attrs = sorted(str(a) for a in e.attributes)
        if isinstance(e, gtirb.SymAddrConst):
            return ["const", self.node(e.symbol), e.offset, attrs]
        if isinstance(e, gtirb.SymAddrAddr):
            return ["addr", self.node(e.symbol1), self.node(e.symbol2),
                    e.offset, e.scale, attrs]
        return [repr(e)]

    def dump(self):
        out = []
        for m in sorted(self.ir.modules, key=lambda m: m.name):
            self.index(m)
        for m in sorted(self.ir.modules, key=lambda m: m.name):
            md = {"name": m.name, "isa": str(m.isa), "fmt": str(
                m.file_format), "byte_order": str(m.byte_order),
                "entry": self.node(m.entry_point) if m.entry_point else None}
            secs = []
            for s in sorted(m.sections, key=lambda s: s.name):
                ivs = []
                for bi in sorted(s.byte_intervals,
                                 key=lambda b: self.ids[id(b)]):
                    ivs.append({
                        "addr": bi.address if self.addresses else None,
                        "size": bi.size,
                        "init": bi.initialized_size,
                        "contents": bytes(bi.contents).hex(),
                        "blocks": sorted(
                            [list(self.ids[id(b)][3:]) + [
                                str(getattr(b, "decode_mode", ""))]
                             for b in bi.blocks], key=repr),
                        "exprs": sorted(
                            [[o, self.expr(e)] for o, e in
                             bi.symbolic_expressions.items()], key=repr),
                    })
                secs.append({"name": s.name,
                             "flags": sorted(str(f) for f in s.flags),
                             "intervals": ivs})
            md["sections"] = secs
            md["symbols"] = sorted(
                [[self.symname(s.name),
                  self.node(s.referent) if s.referent is not None else (
                      ["value", s.value] if s.value is not None else None),
                  bool(s.at_end)] for s in m.symbols], key=repr)
            md["proxies"] = sorted((self.node(p) for p in m.proxies),
                                   key=repr)
            md["aux"] = {
                name: self.value(t.data)
                for name, t in sorted(m.aux_data.items())
                if name not in self.skip_tables}
            out.append(md)
        edges = []
        for e in self.ir.cfg:
            lab = e.label
            edges.append([self.node(e.source), self.node(e.target),
                          str(lab.type) if lab else None,
                          bool(lab.conditional) if lab else None,
                          bool(lab.direct) if lab else None])
        return {"modules": out, "cfg": sorted(edges, key=repr),
                "ir_aux": {n: self.value(t.data)
                           for n, t in sorted(self.ir.aux_data.items())}}


def module_facets(ir, m):
    """facets of ONE module of an IR (a module the rewrite is not about):
    rendered with this module's nodes only, so that equal-looking nodes of
    another module cannot stand in for them; UUIDs are kept (nothing in a
    bystander may be re-created)"""
    c = Canon(ir)
    c.index(m)
    own = {id(p) for p in m.proxies} | {id(b) for b in m.byte_blocks}
    fac = {"entry": c.node(m.entry_point) if m.entry_point else None,
           "name-isa-format": [m.name, str(m.isa), str(m.file_format),
                               str(m.byte_order)]}
    byts, blocks, exprs = [], [], []
    for s in sorted(m.sections, key=lambda s: s.name):
        for bi in sorted(s.byte_intervals, key=lambda b: c.ids[id(b)]):
            # (the image: uninitialised bytes read as zeros - a no-op
            # rewrite by PassManager may spell some of them out, as C10
            # allows)
            byts.append([s.name, sorted(str(f) for f in s.flags), bi.address,
                         bi.size, bytes(bi.contents)[:bi.size].ljust(
                             bi.size, b"\0").hex(), str(bi.uuid)])
            blocks += [[s.name, c.ids[id(bi)][2], b.offset, b.size,
                        type(b).__name__, str(getattr(b, "decode_mode", "")),
                        str(b.uuid)] for b in bi.blocks]
            exprs += [[s.name, c.ids[id(bi)][2], o, c.expr(e)]
                      for o, e in bi.symbolic_expressions.items()]
    fac["bytes"] = byts
    fac["blocks"] = sorted(blocks, key=repr)
    fac["exprs"] = sorted(exprs, key=repr)
    fac["symbols"] = sorted(
        [[s.name, c.node(s.referent) if s.referent is not None else (
            ["value", s.value] if s.value is not None else None),
          bool(s.at_end), str(s.uuid)] for s in m.symbols], key=repr)
    fac["proxies"] = sorted(str(p.uuid) for p in m.proxies)
    for name, t in m.aux_data.items():
        fac["aux:" + name] = [t.type_name, c.value(t.data)]
    edges = []
    for e in ir.cfg:
        if id(e.source) in own or id(e.target) in own:
            lab = e.label
            edges.append([c.node(e.source), c.node(e.target),
                          str(lab.type) if lab else None,
                          bool(lab.conditional) if lab else None,
                          bool(lab.direct) if lab else None])
    fac["cfg"] = sorted(edges, key=repr)
    return {k: json.dumps(v, sort_keys=True, default=repr)
            for k, v in fac.items()}


def dumps(ir, **kw):
    return json.dumps(Canon(ir, **kw).dump(), sort_keys=True, default=repr)


def diff_keys(a, b, path="", out=None, limit=8):
    """first few paths where two canonical dumps (parsed json) differ"""
    if out is None:
        out = []
    if len(out) >= limit:
        return out
    if type(a) is not type(b):
        out.append(path or "/")
        return out
    if isinstance(a, dict):
        for k in sorted(set(a) | set(b)):
            if k not in a or k not in b:
                out.append(f"{path}/{k}")
            else:
                diff_keys(a[k], b[k], f"{path}/{k}", out, limit)
    elif isinstance(a, list):
        if len(a) != len(b):
            out.append(f"{path}[len {len(a)}!={len(b)}]")
        else:
            for i, (x, y) in enumerate(zip(a, b)):
                diff_keys(x, y, f"{path}[{i}]", out, limit)
    elif a != b:
        out.append(path)
    return out
