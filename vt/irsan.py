"""
Whole-IR sanitizer: closed-ness, well-formedness and serializability of a
GTIRB module, all on object identity.  Run after every apply() (return or
raise).
"""
import io
import json
import uuid as uuidlib

import gtirb

from . import canon

STRUCTURAL_CFI = {".cfi_startproc", ".cfi_endproc", ".cfi_remember_state",
                  ".cfi_restore_state"}


class Snapshot:
    """facts about the input needed to judge the output"""

    def __init__(self, module):
        self.zero_sized = {id(b) for b in module.byte_blocks if b.size == 0}
        self.blocks = {id(b) for b in module.byte_blocks}
        self.had_referent = {id(s) for s in module.symbols
                             if s.referent is not None}
        self.sym_names = {id(s): s.name for s in module.symbols}
        self.cfg = module.ir.cfg


def sanitize(module, snap=None, roundtrip=True, failure_path=False,
             interval_order=None):
    """returns list of (key, msg[, node])"""
    out = []
    m = module
    ir = m.ir
    if ir is None:
        return [("irsan:module-detached-from-ir", "")]

    def attached_block(b):
        return (isinstance(b, gtirb.ByteBlock) and b.byte_interval is not None
                and b.byte_interval.section is not None
                and b.byte_interval.section.module is m)

    def attached(n):
        if isinstance(n, gtirb.ByteBlock):
            return attached_block(n)
        if isinstance(n, gtirb.ProxyBlock):
            return n in m.proxies
        if isinstance(n, gtirb.Symbol):
            return n in m.symbols
        if isinstance(n, gtirb.Section):
            return n in m.sections
        if isinstance(n, gtirb.ByteInterval):
            return n.section is not None and n.section.module is m
        if isinstance(n, gtirb.Module):
            return n is m
        return True

    # 1/2 blocks
    for s in m.sections:
        for bi in s.byte_intervals:
            blocks = sorted(bi.blocks, key=lambda b: (b.offset, b.size))
            prev_end = None
            prev = None
            for b in blocks:
                if b.offset < 0 or b.offset + b.size > bi.size:
                    out.append(("irsan:block-outside-interval",
                                f"{s.name}: block {b.offset}+{b.size} in "
                                f"interval of size {bi.size}"))
                if b.address is None and not failure_path:
                    # (addresses are optional in GTIRB; after a completed
                    # rewrite every interval has been laid out)
                    out.append(("irsan:block-without-address", s.name))
                if b.size and prev_end is not None and b.offset < prev_end:
                    new = snap is None or id(b) not in snap.blocks or \
                        id(prev) not in snap.blocks
                    if new:
                        out.append(("irsan:new-block-overlaps",
                                    f"{s.name}: {b.offset}+{b.size} overlaps "
                                    f"block ending at {prev_end}"))
                if b.size:
                    if prev_end is None or b.offset + b.size > prev_end:
                        prev_end = b.offset + b.size
                        prev = b
            if len(bi.contents) > bi.size:
                out.append(("irsan:interval-contents-exceed-size", s.name))
    # 3 CFG
    if type(ir.cfg) is not gtirb.CFG:
        out.append(("irsan:cfg-not-plain-CFG", type(ir.cfg).__name__))
    if snap is not None and ir.cfg is not snap.cfg:
        out.append(("irsan:cfg-object-replaced", ""))
    others = [x for x in ir.modules if x is not m]
    for e in ir.cfg:
        if others and any(getattr(e.source, "module", None) is x and
                          getattr(e.target, "module", None) is x
                          for x in others):
            continue    # an edge inside another module of the IR
        for end, role in ((e.source, "source"), (e.target, "target")):
            if isinstance(end, gtirb.ProxyBlock):
                if end not in m.proxies:
                    out.append((f"irsan:edge-{role}-proxy-not-in-module",
                                str(e.label.type if e.label else "")))
            elif isinstance(end, gtirb.CodeBlock):
                if not attached_block(end):
                    out.append((f"irsan:edge-{role}-detached-block",
                                str(e.label.type if e.label else "")))
            else:
                out.append((f"irsan:edge-{role}-not-a-cfg-node",
                            type(end).__name__))
    # 4 symbols
    for s in m.symbols:
        r = s.referent
        if r is None:
            if snap is not None and id(s) in snap.had_referent:
                out.append(("irsan:symbol-lost-referent", s.name))
            elif snap is not None and id(s) not in snap.sym_names and \
                    s.value is None:
                out.append(("irsan:new-symbol-without-referent", s.name))
        elif not attached(r):
            out.append(("irsan:symbol-referent-detached", s.name))
    # 5 symbolic expressions
    for s in m.sections:
        for bi in s.byte_intervals:
            for off, e in bi.symbolic_expressions.items():
                if not (0 <= off < bi.size):
                    out.append(("irsan:expression-outside-interval",
                                f"{s.name}: {off} of {bi.size}"))
                for sym in e.symbols:
                    if sym not in m.symbols:
                        out.append(("irsan:expression-symbol-not-in-module",
                                    sym.name))
    # 6 aux data walk
    def walk(v, table, depth=0):
        if isinstance(v, gtirb.Offset):
            el = v.element_id
            if isinstance(el, gtirb.Node):
                if not attached(el):
                    out.append((f"irsan:aux-offset-element-detached:{table}",
                                type(el).__name__))
                else:
                    size = getattr(el, "size", None)
                    if size is not None and not (
                            0 <= v.displacement <= size):
                        out.append((f"irsan:aux-offset-out-of-range:{table}",
                                    f"{v.displacement} > {size}"))
            return
        if isinstance(v, gtirb.Node):
            if not attached(v):
                out.append((f"irsan:aux-node-detached:{table}",
                            type(v).__name__, v))
            return
        if isinstance(v, (str, bytes, int, float, uuidlib.UUID)) or v is None:
            return
        if hasattr(v, "items"):
            for k, x in v.items():
                walk(k, table, depth + 1)
                walk(x, table, depth + 1)
            return
        if isinstance(v, (list, tuple, set, frozenset)):
            for x in v:
                walk(x, table, depth + 1)
    for name, t in m.aux_data.items():
        walk(t.data, name)
    # 7 zero-sized blocks only in the documented cases
    cfi = m.aux_data.get("cfiDirectives")
    for s in m.sections:
        # physical order: the caller's original interval order when given
        # (a final re-layout may permute unconnected intervals), else
        # addresses
        io_ = interval_order or {}
        allb = sorted(s.byte_blocks,
                      key=lambda b: (io_.get(id(b.byte_interval), 1 << 30),
                                     b.address or 0, b.size != 0))
        # intervals the caller does not know (created by the rewrite, e.g.
        # for an inserted function) are no physical neighbours of the rest
        groups = {}
        for b in allb:
            gk = 0 if (not io_ or id(b.byte_interval) in io_) \
                else id(b.byte_interval)
            groups.setdefault(gk, []).append(b)
        for order, k, b in ((g, k, b) for g in groups.values()
                            for k, b in enumerate(g)):
            if b.size or (snap is not None and id(b) in snap.zero_sized):
                continue
            if snap is not None and id(b) not in snap.blocks and \
                    not failure_path:
                # zero-sized block created by the rewrite
                pass
            others = [x for x in order if x is not b]
            # (neighbours: the nearest blocks that have bytes; several
            # zero-sized blocks at one place have no order among themselves)
            def padding(x):
                # alignment padding put in front of the next aligned block
                # takes the kind of the zero-sized block in front of it
                return snap is not None and id(x) not in snap.blocks and \
                    isinstance(x, gtirb.CodeBlock) and \
                    not any(True for _ in x.references) and \
                    not any(True for _ in x.incoming_edges) and \
                    not any(True for _ in x.outgoing_edges)

            def zero_padding(x):
                # ... and is a data block of zero bytes when nothing stands
                # in front of it in its interval
                bi_ = x.byte_interval
                return snap is not None and id(x) not in snap.blocks and \
                    isinstance(x, gtirb.DataBlock) and x.offset == 0 and \
                    not any(True for _ in x.references) and \
                    not any(bytes(bi_.contents[:x.size]))
            others = [x for x in others if not zero_padding(x)]
            nxt = next((x for x in order[k + 1:]
                        if x.size and not padding(x)), None)
            prv = next((x for x in reversed(order[:k]) if x.size), None)
            reasons = []
            if any(True for _ in b.references) and not others:
                reasons.append("symbols-and-only-block")
            if isinstance(b, gtirb.CodeBlock):
                nonft_in = any(
                    not (e.label and e.label.type ==
                         gtirb.Edge.Type.Fallthrough)
                    for e in b.incoming_edges)
                special = m.entry_point is b
                for tname in ("elfDynamicInit", "elfDynamicFini"):
                    t = m.aux_data.get(tname)
                    if t is not None and t.data is b:
                        special = True
                if (nonft_in or special) and not isinstance(
                        nxt, gtirb.CodeBlock):
                    reasons.append("incoming-control-flow-no-following-code")
                if cfi is not None:
                    ds = [d for off, dl in cfi.data.items()
                          if off.element_id is b for d in dl]
                    if any(d[0] in STRUCTURAL_CFI for d in ds) and \
                            not isinstance(nxt, gtirb.CodeBlock) and \
                            not isinstance(prv, gtirb.CodeBlock):
                        reasons.append("structural-cfi-no-adjacent-code")
            if not reasons and not failure_path:
                out.append(("irsan:undocumented-zero-sized-block",
                            f"{s.name}: {type(b).__name__} at {b.offset}",
                            b))
    # 8 protobuf round trip
    if roundtrip:
        try:
            buf = io.BytesIO()
            ir.save_protobuf_file(buf)
            buf.seek(0)
            ir2 = gtirb.IR.load_protobuf_file(buf)
            a = canon.dumps(ir)
            b = canon.dumps(ir2)
            if a != b:
                d = canon.diff_keys(json.loads(a), json.loads(b))
                out.append(("irsan:protobuf-roundtrip-differs", str(d)))
        except Exception as exc:  # noqa
            out.append((f"irsan:not-serializable:{type(exc).__name__}",
                        repr(exc)[:300]))
    return out
