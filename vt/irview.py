"""
GTIRB module -> flat observations, through an independent capstone decode.
Positions are (section index, linear offset) where the linear offset counts
the bytes of the section's original intervals in their original order.
"""
import capstone
import gtirb

CS = {"x64": (capstone.CS_ARCH_X86, capstone.CS_MODE_64),
      "ia32": (capstone.CS_ARCH_X86, capstone.CS_MODE_32),
      "arm64": (capstone.CS_ARCH_ARM64, capstone.CS_MODE_ARM),
      "mips32": (capstone.CS_ARCH_MIPS,
                 capstone.CS_MODE_MIPS32 | capstone.CS_MODE_BIG_ENDIAN)}
_MD = {}


def decoder(isa):
    if isa not in _MD:
        md = capstone.Cs(*CS[isa])
        md.detail = True
        _MD[isa] = md
    return _MD[isa]


FLOW_GROUPS = {capstone.CS_GRP_JUMP, capstone.CS_GRP_CALL,
               capstone.CS_GRP_RET}
ETYPE = {gtirb.Edge.Type.Fallthrough: "ft", gtirb.Edge.Type.Branch: "branch",
         gtirb.Edge.Type.Call: "call", gtirb.Edge.Type.Return: "return",
         gtirb.Edge.Type.Syscall: "syscall",
         gtirb.Edge.Type.Sysret: "sysret"}


class Observed:
    pass


def observe(bu, isa):
    m = bu.module
    ir = bu.ir
    ob = Observed()
    ob.problems = []   # structural problems found while flattening
    sec_index = {id(s): i for i, s in enumerate(bu.sections)}
    ob.sections = list(bu.sections)
    for s in sorted(m.sections, key=lambda s: s.name):
        if id(s) not in sec_index:
            sec_index[id(s)] = len(ob.sections)
            ob.sections.append(s)
    ob.sec_names = [s.name for s in ob.sections]
    # interval bases
    base = {}
    ob.bytes = []
    ob.iv_order = []
    for si, s in enumerate(ob.sections):
        orig = list(bu.intervals[si]) if si < len(bu.intervals) else []
        live = [bi for bi in orig if bi.section is s]
        gone = [bi for bi in orig if bi.section is not s]
        for bi in gone:
            ob.problems.append(("interval-left-section", si))
        extra = sorted(
            (bi for bi in s.byte_intervals if all(bi is not o for o in orig)),
            key=lambda b: (b.address or 0, b.size))
        lin = 0
        row = []
        leads = getattr(bu, "leads", None)
        for ii, bi in enumerate(orig):
            lead = leads[si][ii] if leads and si < len(leads) else 0
            base[id(bi)] = (si, lin - lead)
            # uninitialised bytes read as zeros
            row.append(bytes(bi.contents)[:bi.size] +
                       bytes(max(0, bi.size - len(bi.contents))))
            lin += bi.size - lead
        ob.bytes.append(row)
        ob.iv_order.append(list(orig) + extra)
        for bi in extra:
            base[id(bi)] = (si, lin)
            lin += bi.size
    ob.extra = [[bytes(bi.contents) for bi in row[len(
        bu.intervals[si]) if si < len(bu.intervals) else 0:]]
        for si, row in enumerate(ob.iv_order)]

    def locate(si, lin):
        """(is a new interval, bytes from that position to the interval's
        end) for a linear position of section si"""
        norig = len(bu.intervals[si]) if si < len(bu.intervals) else 0
        at_end = None
        for k, bi in enumerate(ob.iv_order[si]):
            b0 = base[id(bi)][1]
            lead = 0
            if k < norig and leads and si < len(leads):
                lead = leads[si][k]
            if b0 + lead <= lin <= b0 + bi.size:
                off = lin - b0
                res = (k >= norig, bytes(bi.contents[off:bi.size]))
                if lin < b0 + bi.size:
                    return res
                at_end = at_end or res
        return at_end
    ob.locate = locate

    def blockpos(b, at_end=False):
        bi = b.byte_interval
        if bi is None or id(bi) not in base:
            return None
        si, lin = base[id(bi)]
        return (si, lin + b.offset + (b.size if at_end else 0))
    ob.blockpos = blockpos

    # proxies
    extern_of = {id(p): n for n, p in bu.extern_proxies.items()}
    syms_of_proxy = {}
    for s in m.symbols:
        if isinstance(s.referent, gtirb.ProxyBlock):
            syms_of_proxy.setdefault(id(s.referent), set()).add(s.name)

    def proxykey(p):
        if id(p) in extern_of:
            return ("extern", extern_of[id(p)])
        names = syms_of_proxy.get(id(p))
        if names:
            return ("proxysyms", frozenset(names))
        return ("anon",)
    ob.proxykey = proxykey

    # symbols
    orig_ids = {id(bi) for row in bu.intervals for bi in row}
    ob.symbols = {}
    for s in m.symbols:
        r = s.referent
        if r is None:
            ob.symbols.setdefault(s.name, []).append(("none",))
        elif isinstance(r, gtirb.ProxyBlock):
            inmod = r in m.proxies
            ob.symbols.setdefault(s.name, []).append(
                ("proxy", id(r), inmod, proxykey(r)))
        else:
            p = blockpos(r, s.at_end)
            if p is None or r.module is not m:
                ob.symbols.setdefault(s.name, []).append(("detached",))
            else:
                # 4th field: for a referent in an interval the rewrite
                # added, the bytes from the symbol to the interval's end
                bi = r.byte_interval
                newiv = None
                if id(bi) not in orig_ids:
                    off = r.offset + (r.size if s.at_end else 0)
                    newiv = bytes(bi.contents[off:bi.size])
                ob.symbols.setdefault(s.name, []).append(
                    ("pos",) + p + (newiv,))

    # instructions
    md = decoder(isa)
    ob.instrs = {}      # (si,pos) -> dict
    ob.block_of_pos = {}
    ob.buried = []
    ob.partial = []
    last_of_block = {}
    fb = m.aux_data.get("functionBlocks")
    fn_of_block = {}
    if fb is not None:
        for fu, blocks in fb.data.items():
            for b in blocks:
                fn_of_block.setdefault(id(b), []).append(fu)
    ob.fn_of_block = fn_of_block
    ob.code_blocks = []
    for s in ob.sections:
        for b in s.byte_blocks:
            if not isinstance(b, gtirb.CodeBlock):
                continue
            p = blockpos(b)
            if p is None:
                continue
            ob.code_blocks.append(b)
            if b.size == 0:
                continue
            data = bytes(b.contents)
            off = 0
            insns = list(md.disasm(data, 0))
            if sum(i.size for i in insns) != len(data):
                ob.partial.append(p)
            for k, i in enumerate(insns):
                groups = set(i.groups) & FLOW_GROUPS
                ipos = (p[0], p[1] + off)
                ob.instrs[ipos] = dict(size=i.size, mnem=i.mnemonic,
                                       groups=groups, block=b,
                                       last=(k == len(insns) - 1),
                                       data=data[off:off + i.size])
                if k != len(insns) - 1 and groups:
                    ob.buried.append((ipos, i.mnemonic))
                off += i.size
            if insns:
                last_of_block[id(b)] = (p[0], p[1] + off - insns[-1].size)
    ob.last_of_block = last_of_block

    # edges
    ob.edges = set()
    ob.edge_problems = []
    ob.zero_block_edges = 0
    live_nodes = set()
    for b in ob.code_blocks:
        live_nodes.add(id(b))
    others = [x for x in ir.modules if x is not m]
    for e in ir.cfg:
        src, dst = e.source, e.target
        if others and any(getattr(src, "module", None) is x and
                          getattr(dst, "module", None) is x for x in others):
            continue    # an edge inside another module of the IR
        if isinstance(src, gtirb.ProxyBlock):
            ob.edge_problems.append(("edge-from-proxy",))
            continue
        sp = blockpos(src) if isinstance(src, gtirb.ByteBlock) else None
        if sp is None or id(src) not in live_nodes:
            ob.edge_problems.append(("edge-source-detached",))
            continue
        if isinstance(dst, gtirb.ProxyBlock):
            if dst not in m.proxies:
                ob.edge_problems.append(("edge-target-proxy-not-in-module",))
            tgt = proxykey(dst)
            if tgt[0] != "extern":
                tgt = ("proxy", id(dst))
        else:
            dp = blockpos(dst)
            if dp is None or id(dst) not in live_nodes:
                ob.edge_problems.append(("edge-target-detached",))
                continue
            tgt = ("pos",) + dp
        lab = e.label
        et = ETYPE.get(lab.type, str(lab.type)) if lab else "none"
        cond = bool(lab.conditional) if lab else False
        direct = bool(lab.direct) if lab else True
        if src.size == 0:
            ob.zero_block_edges += 1
            ob.edges.add((sp[0], sp[1], et, cond, direct, tgt, "zero"))
            continue
        lp = last_of_block.get(id(src))
        if lp is None:
            ob.edge_problems.append(("edge-from-undecodable-block",))
            continue
        ob.edges.add((lp[0], lp[1], et, cond, direct, tgt, "blk"))
    # implicit fallthroughs inside blocks
    for (si, pos), info in ob.instrs.items():
        if not info["last"]:
            ob.edges.add((si, pos, "ft", False, True,
                          ("pos", si, pos + info["size"]), "implicit"))
    return ob
