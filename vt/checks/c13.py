"""C13: assembler symbol discipline and incremental assembly."""
import json
import random

import gtirb

from .. import vocab
from . import c12

PROP = "C13"
LEVEL = "exploration"
TECHNIQUE = "reference-model monitors: symbol-identity/exception oracle on the assembler, scan of module symbols and edges after N-fold insertion of one patch through the real RewritingContext, canonical-dump differential of chunked vs whole assembly"
RULE = (
    "four workloads: (u) programs referencing unknown names (as operands, "
    "or first/only in a .globl/.weak/.hidden/.local/.type directive) with "
    "allow_undef_symbols on/off: UndefSymbolError, or exactly one "
    "proxy-backed symbol per name; (m) programs defining a name that exists "
    "in the module (also an assembler-private name while a temporary-label "
    "suffix is in effect) or twice (also in two assemble() calls of one "
    "Assembler): MultipleDefinitionsError; (n) one patch with "
    "temporary and global-per-copy labels, .set-assigned temporary names, "
    "loops and forward skips inserted "
    "1-20 times in one rewrite via AllBlocksScope or repeated insert_at: "
    "no two module symbols share a name, every copy's branch edges lead to "
    "its own labels (one global name defined by every copy must raise "
    "MultipleDefinitionsError from the second copy on); (r) one Assembler "
    "object used for a second result after finalize(): names of the first "
    "result are unknown again and may be defined again; "
    "(c) the C12 program generator with every valid "
    "2-4-chunk split (no chunk refers to a label defined later, no split "
    "inside an explicit CFI procedure): canonical dump of the chunked "
    "Assembler.Result equals that of the whole text. non-trivial = the "
    "deciding comparison ran; distinct = (workload, config, shape)."
)
RULE += " Every undef case also probes a module symbol with an assembler-private name (.Lname): text that refers to it binds to the module's object (strict/allowing, with/without temp suffix), no second symbol."
ASSUMPTIONS = [
    "result canonicalisation covers what reaches the IR: section bytes, blocks, CFG, symbols, expressions and sizes, alignment, block types, CFI directive table; the number of implicit CFI procedure objects is representation",
]
BUDGET = {"quick": (5000, 40), "thorough": (150000, 480)}
REQUIRED_COUNTERS = ["undef_cases", "multidef_cases", "nfold_insertions",
                     "chunk_comparisons", "assembler_reuses"]


def gen_case(rng, tier, index):
    if index % 9 == 8:
        # one Assembler object used for a second result after finalize()
        isa, fmt = rng.choice([("x64", "elf"), ("x64", "pe"),
                               ("arm64", "elf")])
        return {"w": "reuse", "isa": isa, "fmt": fmt,
                "allow_undef": rng.random() < 0.5,
                "temp": rng.random() < 0.4}
    w = index % 4
    if w == 0:
        c = c12.gen_case(rng, tier, index, programs_only=True)
        c["w"] = "undef"
        c["allow_undef"] = rng.random() < 0.5
        # sprinkle references to unknown names
        names = ["nope0", "nope1", "nope0"]
        r3 = random.Random(f"undef-temp:{index}:{len(c['lines'])}")
        if c["isa"] != "mips32" and r3.random() < 0.35:
            # an unknown name that is assembler-private, named by several
            # operands, with or without a temporary-label suffix in effect
            tn = ("L" if (c["isa"], c["fmt"]) == ("ia32", "pe")
                  else ".L") + "nope9"
            names = [tn, tn, "nope0"]
            if r3.random() < 0.6:
                c["suffix"] = r3.choice(["_7", "_12"])
        v = vocab.VOCAB[c["isa"]]
        for _ in range(rng.randrange(1, 4)):
            k = rng.choice([k for k in ("call", "jmp", "lea_sym")
                            if k in v])
            first_sec = next((i for i, ln in enumerate(c["lines"])
                              if "sec" in ln), len(c["lines"]))
            c["lines"].insert(rng.randrange(0, first_sec + 1),
                              {"k": k, "t": rng.choice(names)})
        if c["fmt"] == "elf" and rng.random() < 0.4:
            # an unknown name mentioned (only, or first) by a symbol
            # attribute directive
            c["attr_undef"] = [rng.choice([".globl", ".weak", ".hidden",
                                           ".local", ".type"]),
                               rng.choice(["nope0", "nope7"]),
                               rng.random() < 0.5]
        return c
    if w == 1:
        c = c12.gen_case(rng, tier, index, programs_only=True)
        c["w"] = "multidef"
        c["dup"] = rng.choice(["module", "own", "module-temp"])
        name = rng.choice(["msym_code", "msym_data", "mext"]) \
            if c["dup"] == "module" else "dupl"
        if c["dup"] == "module-temp":
            # the module owns a symbol with an assembler-private name and
            # the text defines that very name while a temporary-label suffix
            # is in effect (as under RewritingContext)
            name = ("L" if (c["isa"], c["fmt"]) == ("ia32", "pe")
                    else ".L") + "mtmp"
            c["temp_name"] = name
            c["suffix"] = rng.choice(["_1", "_77"])
        pos = rng.randrange(0, len(c["lines"]) + 1)
        c["lines"].insert(pos, {"l": name})
        if c["dup"] == "own":
            c["lines"].insert(rng.randrange(0, len(c["lines"]) + 1),
                              {"l": name})
        return c
    if w == 2:
        isa, fmt = rng.choice([("x64", "elf"), ("x64", "pe"), ("ia32", "pe"),
                               ("arm64", "elf")])
        return {"w": "nfold", "isa": isa, "fmt": fmt,
                "copies": rng.choice([1, 2, 3, 5, 8, 20]),
                "via": rng.choice(["scope", "insert_at", "insert_at",
                                   "function"]),
                "shape": rng.choice(["loop", "skip", "both", "data-ref"]),
                "global_label": rng.random() < 0.3,
                # every copy defines the very same global name
                "same_global": rng.random() < 0.15,
                "set_const": rng.random() < 0.3}
    c = c12.gen_case(rng, tier, index, programs_only=True)
    c["w"] = "chunks"
    c["allow_undef"] = False
    c["split_seed"] = rng.randrange(1 << 30)
    return c


# ---------------------------------------------------------------- helpers
def assemble(c, chunks):
    from gtirb_rewriting.assembler import Assembler
    from gtirb_rewriting.assembly import X86Syntax
    m, msyms = c12.target_module(c)
    kw = {}
    if c.get("temp_name"):
        s = gtirb.Symbol(c["temp_name"],
                         payload=msyms["msym_code"].referent)
        m.symbols.add(s)
        msyms[c["temp_name"]] = s
    if c.get("suffix"):
        kw["temp_symbol_suffix"] = c["suffix"]
    asm = Assembler(m, trivially_unreachable=c["unreachable"],
                    implicit_cfi_procedure=c["implicit_cfi"],
                    allow_undef_symbols=c["allow_undef"], **kw)
    for text in chunks:
        asm.assemble(text, X86Syntax.INTEL if c["intel"] else X86Syntax.ATT)
    return asm.finalize(), m, msyms


def canon_result(result, msyms):
    bid = {}
    for sname, sect in result.sections.items():
        for b in sect.blocks:
            bid[id(b)] = (sname, b.offset, b.size, type(b).__name__)
    ext = {id(s.referent): "M:" + n for n, s in msyms.items()}

    def node(n):
        if id(n) in bid:
            return list(bid[id(n)])
        if id(n) in ext:
            return ext[id(n)]
        if isinstance(n, gtirb.ProxyBlock):
            names = sorted(s.name for s in result.symbols
                           if s.referent is n)
            return ["P"] + names if names else ["P", "anon"]
        return ["?"]
    out = {"sections": {}, "cfg": [], "symbols": []}
    for sname, sect in result.sections.items():
        out["sections"][sname] = {
            "data": bytes(sect.data).hex(),
            "flags": sorted(str(f) for f in sect.flags),
            "blocks": [list(bid[id(b)]) for b in sect.blocks],
            "exprs": sorted(
                [o, type(e).__name__, [s.name for s in e.symbols],
                 getattr(e, "offset", None),
                 sorted(a.name for a in e.attributes),
                 sect.symbolic_expression_sizes.get(o)]
                for o, e in sect.symbolic_expressions.items()),
            "alignment": sorted([list(bid.get(id(b), ("?",))), a]
                                for b, a in sect.alignment.items()),
            "types": sorted([list(bid.get(id(b), ("?",))), str(t)]
                            for b, t in sect.block_types.items()),
            "image": [sect.image_type, sect.image_flags],
        }
    anon = 0
    for e in result.cfg:
        out["cfg"].append([node(e.source), node(e.target),
                           e.label.type.name, bool(e.label.conditional),
                           bool(e.label.direct)])
    out["cfg"].sort(key=repr)
    for s in result.symbols:
        out["symbols"].append([s.name, node(s.referent)
                               if s.referent is not None else None,
                               bool(s.at_end)])
    out["symbols"].sort(key=repr)
    table = result.create_cfi_directives()
    out["cfi"] = sorted(
        [list(bid.get(id(off.element_id), ("?",))), off.displacement,
         [[d[0], list(d[1]), getattr(d[2], "name", "NULL")] for d in dl]]
        for off, dl in table.items())
    out["elf_attrs"] = sorted([s.name, a.type, a.binding, a.visibility]
                              for s, a in
                              result.elf_symbol_attributes.items())
    out["nproxies"] = len(result.proxies)
    return out


# ---------------------------------------------------------------- workloads
def run_undef(c):
    from gtirb_rewriting.assembler import UndefSymbolError
    viol, ctr = [], {"undef_cases": 1}
    text = c12.render(c)
    unknown = sorted({ln["t"] for ln in c["lines"]
                      if "nope" in ln.get("t", "")})
    attr = c.get("attr_undef")
    if attr:
        d = f"{attr[0]} {attr[1]}" + (", @function" if attr[0] == ".type"
                                      else "") + "\n"
        text = d + text if attr[2] else text + d
        unknown = sorted(set(unknown) | {attr[1]})
        ctr["undef_by_attribute_directive"] = 1
    try:
        result, m, msyms = assemble(c, [text])
        exc = None
    except UndefSymbolError as e:
        exc = e
    except Exception as e:  # noqa
        return {"sig": None, "violations": [{
            "key": f"undef:raises-{type(e).__name__}",
            "msg": f"{e!r}\n{text}"[:1000]}], "counters": ctr}
    if not c["allow_undef"]:
        if exc is None:
            viol.append({"key": "undef:unknown-name-accepted",
                         "msg": text[:600]})
        else:
            # a caller may survive the error and go on feeding text to the
            # same Assembler: the name stays unknown
            v2 = second_reference(c, text, unknown)
            if v2:
                viol.append(v2)
            ctr["undef_second_reference"] = 1
    else:
        if exc is not None:
            viol.append({"key": "undef:rejected-although-allowed",
                         "msg": str(exc)})
        else:
            for name in unknown + ["undef0", "undef1"]:
                ss = [s for s in result.symbols
                      if s.name in (name, name + c.get("suffix", ""))]
                used = any(ln.get("t") == name for ln in c["lines"]) or (
                    attr is not None and attr[1] == name)
                if not used:
                    continue
                if len(ss) != 1:
                    viol.append({"key": "undef:not-exactly-one-symbol",
                                 "msg": f"{name}: {len(ss)}"})
                    continue
                r = ss[0].referent
                if not isinstance(r, gtirb.ProxyBlock) or \
                        r not in result.proxies:
                    viol.append({"key": "undef:symbol-not-proxy-backed",
                                 "msg": name})
            # module names still bind to the module's objects, every other
            # operand symbol is one the result hands over
            handed = {id(s) for s in result.symbols}
            for sect in result.sections.values():
                for e in sect.symbolic_expressions.values():
                    for s in e.symbols:
                        ctr["operand_symbols_checked"] = ctr.get(
                            "operand_symbols_checked", 0) + 1
                        if s.name not in msyms and id(s) not in handed \
                                and s.module is not m:
                            viol.append({
                                "key": "undef:operand-symbol-not-among-"
                                       "the-result's-symbols",
                                "msg": s.name})
                        if s.name in msyms and s is not msyms[s.name]:
                            viol.append({
                                "key": "undef:module-name-rebound",
                                "msg": s.name})
    private_name_probe(c, viol, ctr)
    sig = f"undef:{c['isa']}-{c['fmt']}:{int(c['allow_undef'])}:" \
          f"{len(unknown)}"
    return {"sig": sig, "violations": viol, "counters": ctr}


def private_name_probe(c, viol, ctr):
    """
    A module may own symbols with assembler-private names (the temporary
    labels an earlier rewrite left behind, '.L_<addr>' names of a
    disassembler): text that refers to one without defining it binds to the
    module's symbol like any other name, with and without a suffix for
    temporary labels in effect, whether or not undefined names are allowed.
    """
    from gtirb_rewriting.assembler import Assembler, UndefSymbolError
    from gtirb_rewriting.assembly import X86Syntax
    isa, fmt = c["isa"], c["fmt"]
    v = vocab.VOCAB[isa]
    k = next((k for k in ("call", "jmp", "lea_sym") if k in v), None)
    if k is None:
        return
    name = ("L" if (isa, fmt) == ("ia32", "pe") else ".L") + "mpriv_7"
    for allow in (False, True):
        for suffix in (None, "_3"):
            m, msyms = c12.target_module(c)
            sym = gtirb.Symbol(name, payload=msyms["msym_code"].referent)
            m.symbols.add(sym)
            kw = {"temp_symbol_suffix": suffix} if suffix else {}
            asm = Assembler(m, allow_undef_symbols=allow, **kw)
            tag = f"{'allowed' if allow else 'strict'}:" \
                  f"{'suffix' if suffix else 'plain'}"
            try:
                asm.assemble(vocab.asm_text(isa, k, name, None) + "\n",
                             X86Syntax.ATT)
                res = asm.finalize()
            except UndefSymbolError as e:
                viol.append({"key": "undef:module-private-name-not-found",
                             "msg": f"{tag}: {e}"})
                continue
            except Exception as e:  # noqa
                viol.append({
                    "key": "undef:module-private-name-raises:"
                           + type(e).__name__, "msg": f"{tag}: {e!r}"[:300]})
                continue
            ctr["private_name_probes"] = ctr.get(
                "private_name_probes", 0) + 1
            used = [s_ for sect in res.sections.values()
                    for e in sect.symbolic_expressions.values()
                    for s_ in e.symbols]
            if not used or any(s_ is not sym for s_ in used):
                viol.append({"key": "undef:module-private-name-rebound",
                             "msg": f"{tag}: {[s_.name for s_ in used]}"})
            if any(s_.name.startswith(name) for s_ in res.symbols):
                viol.append({
                    "key": "undef:module-private-name-duplicated",
                    "msg": f"{tag}: {[s_.name for s_ in res.symbols]}"})


def second_reference(c, text, unknown):
    from gtirb_rewriting.assembler import Assembler, UndefSymbolError
    from gtirb_rewriting.assembly import X86Syntax
    m, msyms = c12.target_module(c)
    asm = Assembler(m, trivially_unreachable=c["unreachable"],
                    implicit_cfi_procedure=c["implicit_cfi"],
                    allow_undef_symbols=False)
    syntax = X86Syntax.INTEL if c["intel"] else X86Syntax.ATT
    try:
        asm.assemble(text, syntax)
        return None        # (first error did not repeat: not this check's)
    except UndefSymbolError as e:
        first = str(e)
    except Exception:  # noqa
        return None
    name = next((u for u in unknown if u in first), None)
    if name is None:
        return None
    again = vocab.asm_text(c["isa"], "call", name, intel=c["intel"]) + "\n"
    try:
        asm.assemble(again, syntax)
    except UndefSymbolError:
        return None
    except Exception as e:  # noqa
        return {"key": f"undef:second-reference-raises-{type(e).__name__}",
                "msg": repr(e)[:300]}
    return {"key": "undef:unknown-name-accepted:second-reference",
            "msg": f"{name} after {first!r}"}


def run_reuse(c):
    """an Assembler keeps nothing of a finished result: names defined for the
    first result are unknown (and free to be defined again) afterwards"""
    from gtirb_rewriting.assembler import (Assembler,
                                           MultipleDefinitionsError,
                                           UndefSymbolError)
    viol, ctr = [], {"assembler_reuses": 1}
    isa = c["isa"]
    cc = {"isa": isa, "fmt": c["fmt"], "pie": False}
    m, msyms = c12.target_module(cc)
    pre = ".L" if c["temp"] else ""
    lab = pre + "first_only"
    nop = vocab.asm_text(isa, "nop")
    jmp = vocab.asm_text(isa, "jmp", lab)
    asm = Assembler(m, allow_undef_symbols=c["allow_undef"])
    asm.assemble(f"{lab}:\n{nop}\n{jmp}\n")
    r1 = asm.finalize()
    # 1: the name is unknown now
    try:
        asm.assemble(f"{nop}\n{jmp}\n")
        r2 = asm.finalize()
        if not c["allow_undef"]:
            viol.append({"key": "reuse:earlier-result's-name-still-known",
                         "msg": lab})
        else:
            ss = [s for s in r2.symbols if s.name == lab]
            if len(ss) != 1 or not isinstance(ss[0].referent,
                                              gtirb.ProxyBlock) or \
                    any(s is ss[0] for s in r1.symbols):
                viol.append({"key": "reuse:no-fresh-proxy-symbol",
                             "msg": f"{len(ss)}"})
    except UndefSymbolError:
        if c["allow_undef"]:
            viol.append({"key": "reuse:undef-rejected-although-allowed",
                         "msg": lab})
        asm = Assembler(m, allow_undef_symbols=c["allow_undef"])
        asm.assemble(f"{lab}:\n{nop}\n")
        asm.finalize()
    # 2: and may be defined again
    try:
        asm.assemble(f"{lab}:\n{nop}\n")
        asm.finalize()
    except MultipleDefinitionsError:
        viol.append({"key": "reuse:redefinition-after-finalize-refused",
                     "msg": lab})
    return {"sig": f"reuse:{isa}-{c['fmt']}:{int(c['allow_undef'])}"
                   f"{int(c['temp'])}", "violations": viol, "counters": ctr}


def run_multidef(c):
    from gtirb_rewriting.assembler import MultipleDefinitionsError
    viol, ctr = [], {"multidef_cases": 1}
    text = c12.render(c)
    try:
        assemble(c, [text])
        viol.append({"key": f"multidef:accepted:{c['dup']}",
                     "msg": text[:600]})
    except MultipleDefinitionsError:
        pass
    except Exception as e:  # noqa
        from gtirb_rewriting.assembler import AssemblerError
        # another error of the text may legitimately come first
        if not isinstance(e, AssemblerError):
            viol.append({"key": f"multidef:raises-{type(e).__name__}",
                         "msg": f"{e!r}"[:400]})
    if c["dup"] == "own":
        # the two definitions in different assemble() calls of one Assembler
        idx = [i for i, ln in enumerate(c["lines"]) if ln.get("l") == "dupl"]
        cuts = [k for k in valid_boundaries(c) if idx[0] < k <= idx[1]]
        if cuts:
            k = cuts[len(cuts) // 2]
            chunks = [c12.render(dict(c, lines=c["lines"][:k])),
                      c12.render(dict(c, lines=c["lines"][k:]))]
            ctr["multidef_chunked"] = 1
            try:
                assemble(c, chunks)
                viol.append({"key": "multidef:accepted:own:across-chunks",
                             "msg": "\n---\n".join(chunks)[:600]})
            except MultipleDefinitionsError:
                pass
            except Exception as e:  # noqa
                from gtirb_rewriting.assembler import AssemblerError
                if not isinstance(e, AssemblerError):
                    viol.append({
                        "key": f"multidef:raises-{type(e).__name__}",
                        "msg": f"{e!r}"[:400]})
    return {"sig": f"multidef:{c['isa']}-{c['fmt']}:{c['dup']}",
            "violations": viol, "counters": ctr}


def run_nfold(c):
    import gtirb_functions
    from gtirb_rewriting import (AllBlocksScope, BlockPosition, Constraints,
                                 Patch, RewritingContext)
    from .. import gen_rewrite, irbuild, irview
    import random
    viol, ctr = [], {"nfold_insertions": 0}
    isa = c["isa"]
    n = c["copies"]
    # module with n single-instruction code blocks
    blocks = [{"id": i, "code": True, "labels": [f"blk{i}"], "elabels": [],
               "items": [{"k": "nop"}]} for i in range(n)]
    blocks.append({"id": n, "code": False, "labels": ["dat"], "elabels": [],
                   "items": [{"k": "bytes", "hex": "00112233"}]})
    case = {"isa": isa, "fmt": c["fmt"], "pie": False, "secs": [
        {"name": ".text", "exec": True, "ivs": [{"gap": 0,
                                                  "blocks": blocks}]}],
        "externs": ["ext0"], "funcs": [], "entry": None, "edits": []}
    bu, lst = irbuild.build(case, random.Random("uuid:0"))
    m = bu.module
    from gtirb_rewriting.abi import ABI
    tmp = ABI.get(m).temporary_label_prefix()
    v = vocab.VOCAB[isa]
    lines = [vocab.asm_text(isa, "mark", imm=0x77 if isa != "arm64" else 7)]
    if c["shape"] in ("loop", "both"):
        lines += [f"{tmp}loop:", vocab.asm_text(isa, "nop"),
                  vocab.asm_text(isa, "jne", f"{tmp}loop")]
    if c["shape"] in ("skip", "both"):
        lines += [vocab.asm_text(isa, "jne", f"{tmp}skip"),
                  vocab.asm_text(isa, "add"), f"{tmp}skip:"]
    if c["shape"] == "data-ref":
        lines += [f"{tmp}here:", vocab.asm_text(isa, "lea_sym",
                                                f"{tmp}here"),
                  vocab.asm_text(isa, "lea_sym", "dat")]
    if c.get("set_const"):
        # a temporary name defined by assignment instead of as a label
        lines.insert(1, f".set {tmp}kconst, 16")
    lines.append(vocab.asm_text(isa, "nop"))
    text = "\n".join(lines) + "\n"
    calls = []

    class P(Patch):
        def __init__(self):
            super().__init__(Constraints())

        def get_asm(self, ctx):
            calls.append(ctx.block)
            t = text
            if c.get("same_global"):
                t = "glob_same:\n" + t
            elif c["global_label"]:
                t = f"glob_{len(calls)}:\n" + t
            return t
    fns = []
    ctx = RewritingContext(m, fns)
    if c["via"] == "function":
        # the same body inserted as n new functions
        p = P()
        for i in range(n):
            ctx.register_insert_function(f"newfn{i}", p)
    elif c["via"] == "scope":
        ctx.register_insert(AllBlocksScope(BlockPosition.ENTRY), P())
    else:
        p = P()
        for i in range(n):
            ctx.insert_at(bu.blocks[i], 0, p)
    try:
        ctx.apply()
    except Exception as e:  # noqa
        if c.get("same_global") and n > 1 and \
                type(e).__name__ == "MultipleDefinitionsError":
            ctr["nfold_same_global_refused"] = 1
            return {"sig": f"nfold:{isa}:same-global:{n}", "violations": [],
                    "counters": ctr}
        return {"sig": None, "violations": [{
            "key": f"nfold:raises-{type(e).__name__}",
            "msg": f"{e!r}\n{text}"[:800]}], "counters": ctr}
    if c.get("same_global") and n > 1:
        return {"sig": None, "violations": [{
            "key": "nfold:same-global-name-accepted",
            "msg": f"{n} copies"}], "counters": ctr}
    ctr["nfold_insertions"] = len(calls)
    if len(calls) != n:
        viol.append({"key": "nfold:wrong-number-of-invocations",
                     "msg": f"{len(calls)} != {n}"})
    names = {}
    for s in m.symbols:
        names.setdefault(s.name, []).append(s)
    for nme, ss in names.items():
        if len(ss) > 1:
            viol.append({"key": "nfold:duplicate-symbol-name", "msg": nme})
    if c["via"] == "function":
        # copies live in intervals of their own: names and counts only
        for kind in ("loop", "skip", "here", "kconst"):
            syms = [s for nme, ss in names.items() for s in ss
                    if nme.startswith(f"{tmp}{kind}")]
            want = n if (kind == "loop" and c["shape"] in ("loop", "both")) \
                or (kind == "skip" and c["shape"] in ("skip", "both")) or (
                kind == "here" and c["shape"] == "data-ref") or (
                kind == "kconst" and c.get("set_const")) else 0
            if len(syms) != want or len({s.name for s in syms}) != want:
                viol.append({"key": "nfold:temp-label-count:functions",
                             "msg": f"{kind}: {sorted(s.name for s in syms)}"
                                    f" for {want}"})
        for i in range(n):
            if len(names.get(f"newfn{i}", [])) != 1:
                viol.append({"key": "nfold:function-symbol-count",
                             "msg": f"newfn{i}"})
        sig = (f"nfold:{isa}-{c['fmt']}:function:{c['shape']}:{n}:"
               f"{int(c['global_label'])}{int(bool(c.get('set_const')))}")
        return {"sig": sig, "violations": viol, "counters": ctr}
    # every copy's branches target its own labels: decode and follow edges
    ob = irview.observe(bu, isa)
    md = irview.decoder(isa)
    # position of each copy = blkI label position ; copy spans until next blk
    starts = sorted(ob.symbols[f"blk{i}"][0][2] for i in range(n))
    ends = starts[1:] + [ob.symbols["dat"][0][2]]

    def copy_of(pos):
        for k, (a, b) in enumerate(zip(starts, ends)):
            if a <= pos < b:
                return k
        return None
    for (si, p, et, cond, direct, tgt, origin) in ob.edges:
        if et == "branch" and tgt[0] == "pos":
            if copy_of(p) != copy_of(tgt[2]):
                viol.append({"key": "nfold:branch-captured-by-another-copy",
                             "msg": f"{p} -> {tgt[2]}"})
    for kind in ("loop", "skip", "here"):
        syms = [s for nme, ss in names.items() for s in ss
                if nme.startswith(f"{tmp}{kind}")]
        want = n if (kind == "loop" and c["shape"] in ("loop", "both")) or (
            kind == "skip" and c["shape"] in ("skip", "both")) or (
            kind == "here" and c["shape"] == "data-ref") else 0
        if len(syms) != want:
            viol.append({"key": "nfold:temp-label-count",
                         "msg": f"{kind}: {len(syms)} != {want}"})
        cps = set()
        for s in syms:
            r = s.referent
            pos = ob.blockpos(r, s.at_end) if isinstance(
                r, gtirb.ByteBlock) else None
            if pos is None:
                viol.append({"key": "nfold:temp-label-detached",
                             "msg": s.name})
            else:
                cps.add(copy_of(pos[1]) if pos[1] < ends[-1] else n - 1)
        if want and len(cps) != want:
            viol.append({"key": "nfold:temp-labels-not-one-per-copy",
                         "msg": f"{kind}: copies {sorted(map(str, cps))}"})
    if c.get("set_const"):
        ks = [s for nme, ss in names.items() for s in ss
              if nme.startswith(f"{tmp}kconst")]
        if len(ks) != n or any(s.referent is not None or s.value != 16
                               for s in ks):
            viol.append({"key": "nfold:assigned-temp-names",
                         "msg": f"{[(s.name, s.value) for s in ks]} "
                                f"for {n} copies"})
    if c["shape"] == "data-ref":
        # each copy's expression names its own label
        bi = bu.intervals[0][0]
        for off, e in bi.symbolic_expressions.items():
            for s in e.symbols:
                if s.name.startswith(f"{tmp}here"):
                    r = s.referent
                    lp = ob.blockpos(r, s.at_end)[1]
                    if copy_of(lp) != copy_of(off):
                        viol.append({
                            "key": "nfold:expression-captured-by-another-"
                                   "copy", "msg": f"{off} -> {lp}"})
                if s.name == "dat" and s is not bu.symbols["dat"]:
                    viol.append({"key": "nfold:module-name-rebound",
                                 "msg": "dat"})
    sig = (f"nfold:{isa}-{c['fmt']}:{c['via']}:{c['shape']}:{n}:"
           f"{int(c['global_label'])}{int(bool(c.get('set_const')))}")
    return {"sig": sig, "violations": viol, "counters": ctr}


def valid_boundaries(c):
    """line indices k such that cutting before line k keeps every reference
    to an own label at or after its definition's chunk and does not cut an
    explicit CFI procedure"""
    lines = c["lines"]
    defined_at = {ln["l"]: i for i, ln in enumerate(lines) if "l" in ln}
    ok = []
    for k in range(1, len(lines)):
        good = True
        for i, ln in enumerate(lines[:k]):
            t = ln.get("t")
            if t in defined_at and defined_at[t] >= k:
                good = False
            t2 = ln.get("t2")
            if t2 in defined_at and defined_at[t2] >= k:
                good = False
        depth = 0
        for ln in lines[:k]:
            if "cfi" in ln:
                if ln["cfi"][0] == ".cfi_startproc":
                    depth += 1
                elif ln["cfi"][0] == ".cfi_endproc":
                    depth -= 1
        if depth:
            good = False
        if good:
            ok.append(k)
    return ok


def run_chunks(c):
    import random
    viol, ctr = [], {"chunk_comparisons": 0}
    rng = random.Random(c["split_seed"])
    ok = valid_boundaries(c)
    if not ok:
        return {"sig": None, "violations": [], "counters": ctr}
    try:
        whole, m, msyms = assemble(c, [c12.render(c)])
    except Exception as e:  # noqa
        # C12 judges whole-text assembly
        return {"sig": None, "violations": [], "counters": ctr}
    a = canon_result(whole, msyms)
    tried = set()
    for _ in range(6):
        cuts = tuple(sorted(rng.sample(ok, min(len(ok),
                                               rng.randrange(1, 4)))))
        if cuts in tried:
            continue
        tried.add(cuts)
        chunks = []
        prev = 0
        nontext = False
        cur = ".text"
        for k in list(cuts) + [len(c["lines"])]:
            sub = dict(c, lines=c["lines"][prev:k])
            chunks.append(c12.render(sub))
            for ln in c["lines"][prev:k]:
                if "sec" in ln:
                    cur = ln["sec"]
            if k != len(c["lines"]) and cur != ".text":
                nontext = True
            prev = k
        sfx = ":boundary-inside-non-text-section" if nontext else ""
        try:
            parts, m2, msyms2 = assemble(c, chunks)
        except Exception as e:  # noqa
            viol.append({"key": f"chunks:only-chunked-raises{sfx}" if sfx
                         else f"chunks:only-chunked-raises:"
                              f"{type(e).__name__}",
                         "msg": f"{e!r} cuts={cuts}\n" + "\n---\n".join(
                             chunks)[:800]})
            continue
        ctr["chunk_comparisons"] += 1
        b = canon_result(parts, msyms2)
        if a != b:
            from ..canon import diff_keys
            d = diff_keys(json.loads(json.dumps(a)),
                          json.loads(json.dumps(b)))
            area = sorted({p.split("/")[1].split("[")[0] for p in d})
            viol.append({"key": ("chunks:result-differs" + sfx) if sfx else
                         "chunks:result-differs:" + ",".join(area),
                         "msg": f"{d} cuts={cuts}\n" + "\n---\n".join(
                             chunks)[:900]})
    sig = f"chunks:{c['isa']}-{c['fmt']}:{len(ok)}:{len(tried)}"
    return {"sig": sig if ctr["chunk_comparisons"] else None,
            "violations": viol, "counters": ctr}


def run_case(c):
    return {"undef": run_undef, "multidef": run_multidef,
            "nfold": run_nfold, "chunks": run_chunks,
            "reuse": run_reuse}[c["w"]](c)
