"""C11: rewriting is deterministic."""
import json
import os
import random
import subprocess
import tempfile

from .. import common, gen_rewrite
from . import rwbase

PROP = "C11"
LEVEL = "exploration"
TECHNIQUE = "differential monitor across child processes: the same scenario is rewritten under different PYTHONHASHSEED values, UUID draws, perturbed object addresses and permuted registration orders; SHA-256 of UUID-free canonical dumps are compared"
RULE = (
    "batches of seeded rewrite scenarios (as C01, rich in sets the code "
    "iterates: blocks with several in/out edges, several symbols per block, "
    "multi-block functions, several callers per callee) are rewritten in "
    "child processes, one per configuration: PYTHONHASHSEED in {0,1,7,123}, "
    "distinct seeded uuid4 streams, junk allocations of seed-dependent sizes "
    "before each module (gtirb nodes hash by identity, so allocation "
    "addresses are the real source of set-order variation), and registration "
    "orders permuted among modifications that target different (block, "
    "offset) locations. The canonical dump (sections/intervals/blocks by "
    "content, symbols by name, edges over canonical ids, every aux table, "
    "no absolute addresses) must hash identically in all configurations; "
    "interval addresses are compared separately. non-trivial = >=1 edit and "
    ">=2 configurations produced a dump; distinct = shape signatures."
    " 40% of the scenarios are rewritten a second time by a fresh"
    " context whose patch re-uses the first rewrite's temporary label"
    " names; scope registrations with BlockPosition.ANYWHERE; blocks"
    " shared by two functions. One configuration rewrites every"
    " scenario of its batch a second time in the same process (state"
    " kept in process-wide objects must not show). 30% of the inputs have"
    " non-uniform return edges (one return of a function only returns to"
    " a proxy)."
    " 15% of the scenarios have a twin module in the IR (same names); the dump covers it."
)
RULE += " 30% of the scenarios also carry two retarget_symbol_uses requests (chained A->B, B->C or converging), registered in permuted order."
ASSUMPTIONS = [
    "a nondeterminism that needs one specific address collision may be missed",
    "absolute interval addresses after the final re-layout are compared as a separate facet (they are assigned by gtirb_layout iterating sets)",
]
BUDGET = {"quick": (64, 110), "thorough": (2000, 540)}
# every batch runs 6 (thorough: 10) child interpreters at once
WORKERS = 3
REQUIRED_COUNTERS = ["scenarios_compared", "child_runs"]
BATCH = {"quick": 12, "thorough": 25}
CONFIGS = [
    {"hashseed": "0", "uuid_seed": 1, "alloc_seed": 1, "permute": 0},
    {"hashseed": "1", "uuid_seed": 2, "alloc_seed": 2, "permute": 0},
    {"hashseed": "7", "uuid_seed": 3, "alloc_seed": 3, "permute": 11},
    {"hashseed": "123", "uuid_seed": 4, "alloc_seed": 4, "permute": 12},
    {"hashseed": "0", "uuid_seed": 5, "alloc_seed": 5, "permute": 13},
    {"hashseed": "0", "uuid_seed": 1, "alloc_seed": 6, "permute": 0,
     "repeat": True},
]
MORE = [
    {"hashseed": "42", "uuid_seed": 9, "alloc_seed": 7, "permute": 14},
    {"hashseed": "3", "uuid_seed": 10, "alloc_seed": 8, "permute": 15},
    {"hashseed": "99", "uuid_seed": 11, "alloc_seed": 9, "permute": 0},
    {"hashseed": "5", "uuid_seed": 12, "alloc_seed": 10, "permute": 16},
]


def gen_case(rng, tier, index):
    cases = []
    for _ in range(BATCH[tier]):
        g = gen_rewrite.Gen(rng, tier, shared_blocks=True, fnscope_p=0.9,
                            anywhere_p=0.8, popular_callee_p=0.5,
                            themed_p=0.5, double_call_p=0.25,
                            data_bytes_p=0.3, data_temp_p=0.9)
        g.module()
        g.edits()
        regs = {"x64": ["rax", "rbx", "rcx", "rdx", "rsi", "r8", "r12"],
                "ia32": ["eax", "ebx", "ecx", "edx"],
                "arm64": ["x0", "x1", "x2", "x9", "x19"]}[g.case["isa"]]
        for e in g.case["edits"]:
            if "p" in e and "lines" in e["p"] and rng.random() < 0.4 and \
                    g.case["secs"][0]["name"] == ".text":
                blk = rwbase.find_block(g.case, e["b"])
                if not blk["code"]:
                    continue
                e["p"]["cons"] = {
                    "flags": rng.random() < 0.4,
                    "clobbers": rng.sample(regs, rng.randrange(0, 4)),
                    "scratch": rng.randrange(0, 3),
                    "caller": rng.random() < 0.2,
                    "align": rng.random() < 0.2}
        g.case["second_rewrite"] = rng.random() < 0.4
        g.case["imprecise_returns"] = rng.random() < 0.3
        # retarget_symbol_uses requests, also chained (A->B and B->C): they
        # are registered in a permuted order like the modifications
        r2 = random.Random(f"retarget:{index}:{len(cases)}")
        if len(g.callable_labels) >= 3 and r2.random() < 0.3:
            a, b, c = r2.sample(sorted(g.callable_labels), 3)
            g.case["retargets"] = [[a, b], [b, c]] if r2.random() < 0.7 \
                else [[a, b], [c, b]]
        # a second module in the IR with the same names (its half of the dump
        # must not depend on the run either)
        if r2.random() < 0.15:
            g.case["bystander"] = "twin"
        cases.append(g.case)
    return {"cases": cases, "tier": tier}


def run_case(batch):
    viol = []
    ctr = {"scenarios_compared": 0, "child_runs": 0, "configs": 0,
           "both_raise": 0, "in_process_repeats": 0}
    configs = CONFIGS + (MORE if batch.get("tier") == "thorough" else [])
    os.makedirs(common.WORK, exist_ok=True)
    with tempfile.TemporaryDirectory(dir=common.WORK) as td:
        bp = os.path.join(td, "batch.json")
        json.dump(batch, open(bp, "w"))
        procs = []
        for k, cfg in enumerate(configs):
            cp = os.path.join(td, f"cfg{k}.json")
            op = os.path.join(td, f"out{k}.json")
            json.dump(cfg, open(cp, "w"))
            env = dict(os.environ)
            env["PYTHONHASHSEED"] = cfg["hashseed"]
            env[common.GUARD] = "1"
            procs.append((subprocess.Popen(
                [common.PY, "-m", "vt.c11child", bp, cp, op],
                cwd=common.VERIF, env=env, stdout=subprocess.DEVNULL,
                stderr=subprocess.PIPE), op))
        results = []
        rcfgs = []
        for k, (p, op) in enumerate(procs):
            try:
                _, err = p.communicate(timeout=600)
            except subprocess.TimeoutExpired:
                p.kill()
                return {"sig": None, "violations": [],
                        "inconclusive": "child-timeout"}
            if not os.path.exists(op):
                return {"sig": None, "violations": [],
                        "inconclusive": "child-died:" + err.decode(
                            errors="replace")[-300:]}
            res = json.load(open(op))
            if len(res) == 2 * len(batch["cases"]):
                # a configuration that ran every scenario twice in one
                # process: the second pass is one more configuration
                n = len(batch["cases"])
                results.append(res[:n])
                results.append(res[n:])
                rcfgs.append(configs[k])
                rcfgs.append(dict(configs[k], second_pass=True))
                ctr["in_process_repeats"] += n
            else:
                results.append(res)
                rcfgs.append(configs[k])
            ctr["child_runs"] += 1
    configs = rcfgs       # one entry per result row
    ctr["configs"] = len(configs)
    sigs = []
    for idx, case in enumerate(batch["cases"]):
        rs = [r[idx] for r in results]
        harness = [r["exc"] for r in rs
                   if r["exc"] and r["exc"].startswith("harness:")]
        if harness:
            return {"sig": None, "violations": [],
                    "inconclusive": "harness-error:" + harness[0]}
        excs = {r["exc"] for r in rs}
        if len(excs) > 1:
            viol.append({"key": "determinism:exception-differs",
                         "msg": f"scenario {idx}: {sorted(map(str, excs))}"})
            continue
        if excs != {None}:
            ctr["both_raise"] += 1
            continue
        ctr["scenarios_compared"] += 1
        fulls = {r["full"] for r in rs}
        if len(fulls) > 1:
            which = [k for k, r in enumerate(rs) if r["full"] != rs[0]["full"]]
            perm_only = all(configs[k]["permute"] for k in which)
            second = all(configs[k].get("second_pass") for k in which)
            viol.append({
                "key": "determinism:dump-differs:" + (
                    "second-pass-in-one-process" if second else
                    "registration-order" if perm_only else "same-order"),
                "msg": f"scenario {idx}: configs {which} differ from config "
                       f"0; case={json.dumps(case)[:1500]}"})
        elif len({r["addr"] for r in rs}) > 1:
            viol.append({
                "key": "determinism:interval-addresses-differ",
                "msg": f"scenario {idx}: same module, different layout"})
        if case["edits"]:
            sigs.append(rwbase.shape_signature(case))
    sig = None
    if sigs and ctr["scenarios_compared"]:
        sig = "|".join(sorted(set(sigs)))[:400]
    return {"sig": sig, "violations": viol, "counters": ctr}
