"""Shared scenario runner for the rewrite properties (C01-C09, C11)."""
from .. import gen_rewrite, irview, oracles, rewrite, vocab


def find_block(case, bid):
    for s in case["secs"]:
        for iv in s["ivs"]:
            for b in iv["blocks"]:
                if b["id"] == bid:
                    return b
    return None


def shape_signature(case):
    isa = case["isa"]
    parts = []
    for e in case["edits"]:
        if e["op"] == "delfn":
            parts.append("delfn")
            continue
        blk = find_block(case, e["b"])
        n = len(blk["items"])
        if not blk["code"]:
            term = "data"
        elif n:
            term = vocab.VOCAB[isa][blk["items"][-1]["k"]]["kind"]
        else:
            term = "empty"
        i = e["i"]
        pos = "0" if i == 0 else "end" if i == n else (
            "preterm" if i == n - 1 else "mid")
        if e["op"] in ("ins", "rep"):
            p = e["p"]
            if "bytes" in p:
                pend = "bytes"
            else:
                tl = p["lines"]
                for k, ln in enumerate(tl):
                    if "sec" in ln:
                        tl = tl[:k]
                        break
                last = [ln for ln in tl
                        if "raw" not in ln and "d" not in ln][-1]
                pend = "label" if "l" in last else (
                    "bytes" if last.get("k") == "bytes" else
                    vocab.VOCAB[isa][last["k"]]["kind"])
            span = "" if e["op"] == "ins" else (
                "all" if e["n"] == n else str(min(e["n"], 2)))
            parts.append(f"{e['op']}{span}@{pos}/{term}/{pend}")
        else:
            span = "proxy" if e.get("proxy") else (
                "all" if e["n"] == n and n else str(min(e["n"], 2)))
            parts.append(f"del{span}@{pos}/{term}")
    return f"{isa}-{case['fmt']}:" + ",".join(sorted(parts))


class Analysis:
    pass


def analyze(case, seed=0, fault_at=None, fault_kind="raise"):
    """runs the scenario and prepares model + observation"""
    a = Analysis()
    a.case = case
    a.viol = []
    a.ctr = {}
    a.skip = None
    run = rewrite.run(case, seed=seed, fault_at=fault_at,
                      fault_kind=fault_kind)
    a.run = run
    # a module of the same IR that the rewrite is not about must come out
    # as it went in (also when apply() raises); which facets a property
    # speaks about is the check's choice (bystander())
    a.by_changes = rewrite.bystander_changes(run)
    if a.by_changes is not None:
        a.ctr["bystander_modules_compared"] = 1
        a.ctr["bystander_kind_twin" if case["bystander"] == "twin"
              else "bystander_kind_unrelated"] = 1
    if run.exception is not None and fault_at is None:
        kind, key = oracles.classify_apply_exception(case, run.exception)
        if kind == "refused":
            a.skip = key
            a.ctr["precondition_refusals"] = 1
            return a
        import traceback
        msg = "".join(traceback.format_exception(
            type(run.exception), run.exception,
            run.exception.__traceback__))[-2500:]
        a.viol.append({"key": key, "msg": msg})
        a.skip = "apply-raised"
        a.ctr["apply_raised"] = 1
        return a
    if fault_at is not None:
        return a
    a.lst = rewrite.expected(case)
    a.exp_bytes = a.lst.layout()
    # the vocabulary must predict what the assembler produced, otherwise the
    # model's instruction boundaries are not trustworthy for this case
    isa = case["isa"]
    for rec in run.rec.assembled:
        if rec["summary"] is None:
            continue
        eid = rec["patch"].eid
        if eid >= 1000:
            continue    # body of an inserted function (C06 checks its bytes)
        e = case["edits"][eid]
        want = b"".join(
            t.data for t in a.lst.patch_tokens(e["p"]["lines"], eid, None))
        if rec["summary"]["text"] != want:
            a.skip = "vocab-mismatch"
            a.ctr["vocab_mismatch"] = 1
            a.mismatch = (eid, want.hex(), rec["summary"]["text"].hex())
            return a
    a.ob = irview.observe(run.bu, isa)
    a.ctr["applies"] = 1
    if case.get("driver") == "passes":
        a.ctr["applies_through_passmanager"] = 1
    n_intel = sum(1 for e in case["edits"]
                  if isinstance(e.get("p"), dict) and e["p"].get("intel"))
    if n_intel:
        a.ctr["intel_syntax_patches"] = n_intel
    if case.get("cross_patch_refs"):
        a.ctr["applies_with_cross_patch_references"] = 1
    a.ctr["patch_invocations"] = len(run.rec.invocations)
    return a


BYSTANDER_FACETS = {
    "C01": ("bytes", "name-isa-format"),
    "C02": ("symbols", "proxies", "entry"),
    "C03": ("cfg", "blocks"),
    "C04": ("exprs", "aux:symbolicExpressionSizes", "aux:comments",
            "aux:padding", "aux:alignment", "aux:types", "aux:encodings"),
    "C06": ("aux:functionEntries", "aux:functionBlocks",
            "aux:functionNames"),
    "C08": ("aux:cfiDirectives",),
}


def bystander(a, prop):
    """violations for the facets of the bystander module that `prop` is
    about (None: every facet, tables the rewrite added included)"""
    if not a.by_changes:
        return
    want = BYSTANDER_FACETS.get(prop)
    for f in a.by_changes:
        if want is None or f in want:
            a.viol.append({"key": "bystander-module-changed:" + (
                "aux-table" if f.startswith("aux:") and want is None
                else f), "msg": f"facet {f} of the module the rewrite was "
                "not about differs from before the rewrite"})


def result(a, sig_nontrivial=True):
    sig = shape_signature(a.case) if (a.skip is None and a.case["edits"]
                                      and sig_nontrivial) else None
    res = {"sig": sig, "violations": a.viol, "counters": a.ctr}
    if a.skip == "vocab-mismatch":
        res["inconclusive"] = "vocab-mismatch:" + str(a.mismatch)[:300]
    return res


def gen_case(rng, tier, index, **knobs):
    return gen_rewrite.generate(rng, tier, **knobs)
