"""C09: rewrite caches are transparent: batch equals one-at-a-time."""
import json
import random
import traceback

import gtirb_functions

from .. import canon, contracts, hooks, irbuild, oracles, rewrite
from . import rwbase

PROP = "C09"
LEVEL = "exploration"
TECHNIQUE = "three runtime monitors: batch-vs-sequential differential on canonical dumps; cache-vs-IR comparison at in-repo hook points with a shadow model of the reference cache and interposition on the assembler's symbol lookup; icontract class invariants on the repo's cache classes"
RULE = (
    "seeded rewrite scenarios (as C01, biased to later patches that name, "
    "branch to or call labels of blocks an earlier modification moved, "
    "split, joined or deleted). Monitor 1: every scenario is applied in one context and again one "
    "modification per context in apply()'s order (block address, offset, "
    "registration; the location of each not yet applied modification is "
    "found through the listing edited so far); observable facets (bytes, "
    "symbols with temporary-label suffixes normalised, proxy groups, edges, "
    "function attribution/entries, annotations, expressions, block "
    "boundaries) must be equal and both or neither must raise; a difference "
    "is keyed by the facet and by which run deviates from the edited listing "
    "(keys of the C01-C04/C06 oracles). Monitor 2: at every hook event "
    "(apply begin/end, before each patch is assembled, after each insert and "
    "delete) block ordering vs address order, functions_by_block vs "
    "functionBlocks, return-edge cache vs CFG scan, reference cache (read-"
    "only tree walk) vs a dict model maintained by interposition, and every "
    "module symbol the assembler resolves must have a direct referent. "
    "Monitor 3: icontract invariants after every public operation of "
    "ReturnEdgeCache, BlockOrdering, ReferenceCache. non-trivial = apply() "
    "returned with >=1 edit and hook events observed; distinct = shape "
    "signature (+ 'diff' when the differential ran). A quarter of the "
    "scenarios also call retarget_symbol_uses(code label, code label) on "
    "the same context (one at a time: a last context of its own)."
    " 10% of the batch runs have a twin module (same names) in the IR: the IR-wide caches must answer for the rewritten module only and leave the twin as it was."
)
ASSUMPTIONS = [
    "block-ordering ground truth: (interval start address, block offset), ties among zero-sized blocks not judged",
]
BUDGET = {"quick": (3000, 45), "thorough": (80000, 540)}
REQUIRED_COUNTERS = ["hook_events", "ordering_comparisons",
                     "return_edge_comparisons", "reference_comparisons",
                     "contract_evaluations", "differential_runs",
                     "assembler_lookups", "contexts_that_also_retarget"]


def setup_worker(tier):
    contracts.install()


def gen_case(rng, tier, index):
    from .. import gen_rewrite
    # (patches that add data to other sections are left to C01-C04: where a
    # new interval lands relative to the end of a section differs between
    # one and several contexts without any listing position changing)
    g = gen_rewrite.Gen(rng, tier, other_sections=False)
    g.module()
    if index % 2 == 0:
        g.one_per_block = True
    g.edits()
    g.case["seq_passmanager"] = rng.random() < 0.5
    if len(g.code_labels) >= 2 and rng.random() < 0.25:
        # the same context also redirects the uses of one label to another
        # (retarget_symbol_uses runs behind the modifications); one at a
        # time this is a last context of its own
        used = sorted({it["t"] for b in g.all_blocks for it in b["items"]
                       if it.get("t") in g.code_labels})
        a = rng.choice(used or g.code_labels)
        b = rng.choice([x for x in g.callable_labels if x != a] or
                       [x for x in g.code_labels if x != a])
        g.case["retargets"] = [[a, b]]
    if random.Random(f"c09-bystander:{index}").random() < 0.1:
        # a twin module in the same IR during the batch run: the caches are
        # IR-wide (ir.cfg), the answers they give are about one module
        g.case["bystander"] = "twin"
    return g.case


def register_retargets(case, m, ctx):
    for a, b in case.get("retargets", []):
        sa = next(s for s in m.symbols if s.name == a)
        sb = next(s for s in m.symbols if s.name == b)
        ctx.retarget_symbol_uses(sa, sb)


def one_mod_per_block(case):
    seen = set()
    for e in case["edits"]:
        blocks = [e["b"]] if e["op"] != "delfn" else next(
            f["blocks"] for f in case["funcs"] if f["name"] == e["f"])
        for b in blocks:
            if b in seen:
                return False
            seen.add(b)
    return True


def block_order(case):
    order = {}
    k = 0
    for s in case["secs"]:
        for iv in s["ivs"]:
            for b in iv["blocks"]:
                order[b["id"]] = k
                k += 1
    return order


def locate(case, bu, lst0, applied, e):
    """
    Where the not yet applied modification e lands in the current IR, given
    the modifications already applied: the listing edited by `applied` gives
    the interval position of the instruction boundary e names, and the block
    of the IR covering that position is the one to hand to the library.
    Returns (block, offset) or None when the boundary is gone or ambiguous.
    """
    import gtirb
    sub = dict(case, edits=list(applied))
    lst = rewrite.expected(sub)
    lst.layout()
    b, i = e["b"], e["i"]
    nitems = len(lst0.block_info[b]["blk"]["items"])
    where = None
    at_end = i >= nitems
    if not at_end:
        for si, ii, t in lst.all_tokens():
            if t.uid == ("o", b, i):
                where = (si, ii, t.ivpos)
                break
    else:
        for si, ii, t in lst.all_tokens():
            if t.t in "ID" and (
                    (t.patch is None and t.bid == b) or
                    (t.patch is not None and t.site and t.site[0] == b)):
                end = t.ivpos + t.size
                if where is None or end > where[2]:
                    where = (si, ii, end)
    if where is None:
        return None
    si, ii, p = where
    bi = bu.intervals[si][ii]
    want_code = lst0.block_info[b]["code"]
    cands = []
    for blk in bi.blocks:
        if isinstance(blk, gtirb.CodeBlock) != want_code or not blk.size:
            continue
        if at_end and blk.offset + blk.size == p:
            cands.append((blk, blk.size))
        elif not at_end and blk.offset <= p < blk.offset + blk.size:
            cands.append((blk, p - blk.offset))
    if len(cands) != 1:
        return None
    return cands[0]


def run_sequential(case, seed=0):
    """every modification in a context of its own, in the order apply() uses
    (block address, offset, registration)"""
    rewrite.install()
    from gtirb_rewriting import RewritingContext
    rng = random.Random(f"uuid:{seed}")
    bu, lst0 = irbuild.build(case, rng)
    bu.item_offsets = {bid: lst0.item_offsets(bid) for bid in lst0.block_info}
    m = bu.module
    order = block_order(case)

    # delete_function is a set of per-block proxy deletions; one-at-a-time
    # application in address order therefore interleaves them with the other
    # modifications block by block
    steps = []
    for eid, e in enumerate(case["edits"]):
        if e["op"] == "delfn":
            for b in next(f["blocks"] for f in case["funcs"]
                          if f["name"] == e["f"]):
                n = len(lst0.block_info[b]["blk"]["items"])
                steps.append((order[b], 0, eid,
                              {"op": "del", "b": b, "i": 0,
                               "n": n, "proxy": True}))
        else:
            steps.append((order[e["b"]], e["i"], eid, e))
    rec = rewrite.Recorder()
    exc = None
    pm = step = None
    if case.get("seq_passmanager"):
        from gtirb_rewriting import Pass, PassManager

        class Step(Pass):
            cur = None

            def begin_module(self, module, functions_, ctx_):
                if module is m and self.cur is not None:
                    eid_, e_, loc_ = self.cur
                    _register_one(case, eid_, e_, bu, ctx_, rec, functions_,
                                  loc_)
        pm = PassManager()
        step = Step()
        pm.add(step)
    applied = []      # (eid, edit) in registration order
    unmappable = False
    seq_viol = []
    seq_events = [0]
    rewrite._current = rec
    try:
        for _, _, eid, e in sorted(steps, key=lambda x: x[:3]):
            have_fn = "functionEntries" in m.aux_data and \
                "functionBlocks" in m.aux_data
            functions = gtirb_functions.Function.build_functions(m) \
                if have_fn else []
            loc = locate(case, bu, lst0,
                         [x for _, x in sorted(applied, key=lambda y: y[0])],
                         e)
            if loc is None:
                unmappable = True
                break
            # the cache monitor watches these contexts too: they start from
            # modules that earlier rewrites left behind (zero-sized blocks,
            # re-laid-out intervals), which a fresh module never shows
            from gtirb_rewriting import rewriting as rw
            mon = hooks.CacheMonitor() if rw._verif is not None else None
            if mon is not None:
                mon.ordering_events = {"apply_begin"}
            try:
                if pm is not None:
                    # one PassManager object serves every step
                    step.cur = (eid, e, loc)
                    go = lambda: pm.run(bu.ir)   # noqa: E731
                else:
                    ctx = RewritingContext(m, functions)
                    _register_one(case, eid, e, bu, ctx, rec, functions, loc)
                    go = ctx.apply
                if mon is not None:
                    mon.install_shadow(m)
                    rw._verif.register(mon)
                try:
                    go()
                finally:
                    if mon is not None:
                        rw._verif.unregister(mon)
                        mon.uninstall()
                        seq_viol.extend(mon.viol)
                        seq_events[0] += mon.ctr.get("hook_events", 0)
                relayout(case, bu)
            except Exception as x:  # noqa
                exc = x
                break
            applied.append((eid, e))
        if exc is None and not unmappable and case.get("retargets"):
            have_fn = "functionEntries" in m.aux_data and \
                "functionBlocks" in m.aux_data
            ctx = RewritingContext(
                m, gtirb_functions.Function.build_functions(m)
                if have_fn else [])
            register_retargets(case, m, ctx)
            try:
                ctx.apply()
                relayout(case, bu)
            except Exception as x:  # noqa
                exc = x
    finally:
        rewrite._current = None
    bu.rec = rec
    bu.unmappable = unmappable
    bu.seq_viol = seq_viol
    bu.seq_events = seq_events[0]
    return bu, exc


def relayout(case, bu):
    """
    The library's final re-layout (gtirb_layout) may permute intervals that
    are not connected by fallthrough edges; between the steps of a
    one-at-a-time application the harness lays the module out again in the
    original interval order so that 'next block by address' keeps meaning
    the same thing as in the batch run.
    """
    m = bu.module
    for si, row in enumerate(bu.intervals):
        addr = irbuild.SEC_BASE * (si + 1)
        for ii, bi in enumerate(row):
            if bi.section is None:
                continue
            if ii:
                addr += case["secs"][si]["ivs"][ii].get("gap", 0)
            bi.address = addr
            addr += bi.size
        sect = bu.sections[si]
        for bi in sect.byte_intervals:
            if all(bi is not o for o in row):
                bi.address = addr
                addr += bi.size + 16
    known = {id(s) for s in bu.sections}
    base = irbuild.SEC_BASE * (len(bu.sections) + 1)
    for s in sorted(m.sections, key=lambda s: s.name):
        if id(s) in known:
            continue
        addr = base
        for bi in sorted(s.byte_intervals, key=lambda b: b.size):
            bi.address = addr
            addr += bi.size + 16
        base += irbuild.SEC_BASE


def _register_one(case, eid, e, bu, ctx, rec, functions, loc):
    isa = case["isa"]
    blk, off = loc
    offs = bu.item_offsets[e["b"]]
    orig = offs[e["i"]]
    if e["op"] == "del":
        ctx.delete_at(blk, off, offs[e["i"] + e["n"]] - orig,
                      retarget_to_proxy=e.get("proxy", False))
        return
    p = e["p"]
    patch = bytes.fromhex(p["bytes"]) if "bytes" in p else \
        rewrite.make_patch(isa, p, eid, rec)
    if e["op"] == "ins":
        ctx.insert_at(blk, off, patch)
    else:
        ctx.replace_at(blk, off, offs[e["i"] + e["n"]] - orig, patch)


def facets(case, bu):
    """observable facets of a rewritten module, UUID- and layout-free"""
    from .. import irview
    ob = irview.observe(bu, case["isa"])
    m = bu.module
    syms = set()
    pname = {}
    for name, gots in ob.symbols.items():
        if name.startswith(".L") and name.rsplit("_", 1)[-1].isdigit():
            # temporary label: the suffix numbers the patch invocations of
            # one context, which differs between the two runs by design
            name = name.rsplit("_", 1)[0]
        for g in gots:
            if g[0] == "pos":
                if g[3] is not None:
                    # in an interval the rewrite added: its place among the
                    # other new intervals is arbitrary
                    syms.add((name, "new-interval", ob.sec_names[g[1]],
                              g[3].hex()))
                    continue
                syms.add((name, "pos", g[1], g[2]))
            elif g[0] == "proxy":
                pname.setdefault(g[1], set()).add(name)
                syms.add((name, "proxy"))
            else:
                syms.add((name, g[0]))
    groups = frozenset(frozenset(v) for v in pname.values())

    def tgt(t):
        if t[0] == "proxy":
            return ("proxy", tuple(sorted(pname.get(t[1], ()))))
        return t
    edges = {(si, p, et, c, d, tgt(t)) for (si, p, et, c, d, t, o)
             in ob.edges if o != "zero"}
    fb = m.aux_data.get("functionBlocks")
    fn = m.aux_data.get("functionNames")
    fe = m.aux_data.get("functionEntries")
    attr = set()
    entries = set()
    if fb is not None and fn is not None:
        nm = {fu: getattr(s, "name", None) for fu, s in fn.data.items()}
        owner = {}
        for fu, blocks in fb.data.items():
            for b in blocks:
                owner[id(b)] = nm.get(fu)
        for pos, info in ob.instrs.items():
            attr.add((pos, owner.get(id(info["block"]))))
        if fe is not None:
            for fu, blocks in fe.data.items():
                for b in blocks:
                    if b.size:
                        entries.add((nm.get(fu), ob.blockpos(b)))
    ann = set()
    import gtirb
    base = {}
    for si, row in enumerate(bu.intervals):
        for ii, bi in enumerate(row):
            base[id(bi)] = (si, ii)
    for table in ("comments", "padding", "symbolicExpressionSizes"):
        t = m.aux_data.get(table)
        if t is None:
            continue
        for off, val in t.data.items():
            el = off.element_id
            if isinstance(el, gtirb.ByteInterval):
                w, p = base.get(id(el)), off.displacement
            else:
                bi = getattr(el, "byte_interval", None)
                w = base.get(id(bi)) if bi is not None else None
                p = el.offset + off.displacement if bi is not None else None
            ann.add((table, w, p, val))
    exprs = set()
    for si, row in enumerate(bu.intervals):
        for ii, bi in enumerate(row):
            for off, e in bi.symbolic_expressions.items():
                exprs.add((si, ii, off, tuple(
                    s.name.rsplit("_", 1)[0] if s.name.startswith(".L")
                    and s.name.rsplit("_", 1)[-1].isdigit() else s.name
                    for s in e.symbols),
                           getattr(e, "offset", None),
                           tuple(sorted(str(a) for a in e.attributes))))
    boundaries = {(ob.blockpos(b), b.size) for b in ob.code_blocks}
    return {
        "bytes": tuple(tuple(r) for r in ob.bytes),
        "symbols": syms, "proxy-groups": groups, "edges": edges,
        "function-attribution": attr, "function-entries": entries,
        "annotations": ann, "expressions": exprs,
        "block-boundaries": boundaries,
    }


FACET_ORACLE = {
    "bytes": "bytes", "symbols": "symbols", "proxy-groups": "symbols",
    "edges": "cfg", "block-boundaries": "cfg",
    "function-attribution": "functions", "function-entries": "functions",
    "annotations": "aux", "expressions": "aux",
}


def model_keys(case, bu, rec):
    """violation keys of the listing oracles (C01-C04, C06) for one run"""
    from .. import irview
    run = rewrite.Run()
    run.case, run.bu, run.rec = case, bu, rec
    lst = rewrite.expected(case)
    exp_bytes = lst.layout()
    ob = irview.observe(bu, case["isa"])
    out = {}
    for fam, fn in (("bytes", lambda: oracles.check_bytes(run, lst, ob,
                                                          exp_bytes)),
                    ("symbols", lambda: oracles.check_symbols(run, lst, ob)),
                    ("cfg", lambda: oracles.check_cfg(run, lst, ob)),
                    ("aux", lambda: oracles.check_aux(run, lst, ob)),
                    ("functions", lambda: oracles.check_functions(run, lst,
                                                                  ob))):
        try:
            v, _ = fn()
            out[fam] = {x["key"] for x in v}
        except Exception as exc:  # noqa
            out[fam] = {f"oracle-error:{type(exc).__name__}"}
    return out


def run_case(case):
    from gtirb_rewriting import rewriting as rw
    viol = []
    ctr = {"differential_runs": 0, "contract_evaluations": 0}
    if rw._verif is None:
        return {"sig": None, "violations": [],
                "inconclusive": "hook-disabled"}
    mon = hooks.CacheMonitor()
    before_counts = dict(contracts.COUNTS)
    contracts.drain()

    def before(r):
        register_retargets(case, r.bu.module, r.ctx)
        if case.get("retargets"):
            ctr["contexts_that_also_retarget"] = 1
        mon.install_shadow(r.bu.module)

    rw._verif.register(mon)
    try:
        r = rewrite.run(case, before_apply=before)
    finally:
        rw._verif.unregister(mon)
        mon.uninstall()
    ch = rewrite.bystander_changes(r)
    if ch is not None:
        ctr["bystander_modules_compared"] = 1
        for f in ch:
            viol.append({"key": "bystander-module-changed:" + (
                "aux-table" if f.startswith("aux:") else f),
                "msg": f"facet {f} of the module the batch rewrite was not "
                       "about differs from before the rewrite"})
    for k, v in mon.ctr.items():
        ctr[k] = v
    for k, msg in mon.viol:
        viol.append({"key": k, "msg": msg})
    for cls, what in contracts.drain():
        viol.append({"key": f"contract:{cls}:{what}", "msg": what})
    ctr["contract_evaluations"] = sum(
        contracts.COUNTS[k] - before_counts[k] for k in contracts.COUNTS)
    skip = None
    if r.exception is not None:
        kind, key = oracles.classify_apply_exception(case, r.exception)
        if kind == "raised":
            msg = "".join(traceback.format_exception(
                type(r.exception), r.exception,
                r.exception.__traceback__))[-2000:]
            viol.append({"key": key, "msg": msg})
        else:
            ctr["precondition_refusals"] = 1
        skip = key
    did_diff = False
    multi = not one_mod_per_block(case)
    if case["edits"]:
        bu2, exc2 = run_sequential(case)
        ctr["hook_events_one_at_a_time"] = bu2.seq_events
        for k, msg in {(k, m_) for k, m_ in bu2.seq_viol}:
            viol.append({"key": k + ":one-at-a-time", "msg": msg})
        if bu2.unmappable:
            ctr["differential_unmappable"] = 1
        else:
            ctr["differential_runs"] = 1
            if multi:
                ctr["differential_runs_several_mods_per_block"] = 1
            did_diff = True
    if did_diff:
        if (r.exception is None) != (exc2 is None):
            # loud refusals of either mode are not judged
            k1 = oracles.classify_apply_exception(case, r.exception)[0] \
                if r.exception is not None else None
            k2 = oracles.classify_apply_exception(case, exc2)[0] \
                if exc2 is not None else None
            if "refused" not in (k1, k2):
                which = "batch" if r.exception is not None else "sequential"
                e = r.exception or exc2
                viol.append({
                    "key": f"differential:only-{which}-raises:"
                           f"{type(e).__name__}",
                    "msg": repr(e)[:300]})
        elif r.exception is None:
            fa = facets(case, r.bu)
            fb = facets(case, bu2)
            zero = any(sz == 0 for _, sz in fa["block-boundaries"] |
                       fb["block-boundaries"])
            sfx = ":retained-zero-sized-block" if zero else ""
            differing = [n for n in fa if fa[n] != fb[n]]
            mk_a = mk_b = None
            if differing:
                # which of the two runs deviates from the edited listing,
                # and how: the mechanism keys of the listing oracles
                mk_a = model_keys(case, r.bu, r.rec)
                mk_b = model_keys(case, bu2, bu2.rec)
            for name in differing:
                only_a = fa[name] - fb[name] if isinstance(
                    fa[name], (set, frozenset)) else fa[name]
                only_b = fb[name] - fa[name] if isinstance(
                    fb[name], (set, frozenset)) else fb[name]
                fam = FACET_ORACLE[name]
                ka = sorted(mk_a[fam] - mk_b[fam])[:3]
                kb = sorted(mk_b[fam] - mk_a[fam])[:3]
                detail = ""
                if zero and not ka:
                    # only the one-at-a-time run deviates from the listing
                    # and it carries a zero-sized block of an earlier step
                    detail = ""
                elif ka or kb:
                    detail = (":batch[" + ",".join(ka) + "]:sequential[" +
                              ",".join(kb) + "]")
                viol.append({
                    "key": f"differential:{name}-differ{sfx}{detail}",
                    "msg": f"batch-only {sorted(only_a, key=repr)[:6]} "
                           f"sequential-only "
                           f"{sorted(only_b, key=repr)[:6]}"})
    sig = None
    if skip is None and case["edits"] and mon.ctr["hook_events"]:
        sig = rwbase.shape_signature(case) + ("|diff" if did_diff else "")
    return {"sig": sig, "violations": viol, "counters": ctr}
