"""C09: rewrite caches are transparent: batch equals one-at-a-time."""
import json
import random
import traceback

import gtirb_functions

from .. import canon, contracts, hooks, irbuild, oracles, rewrite
from . import rwbase

PROP = "C09"
LEVEL = "exploration"
TECHNIQUE = "three runtime monitors: batch-vs-sequential differential on canonical dumps; cache-vs-IR comparison at in-repo hook points with a shadow model of the reference cache and interposition on the assembler's symbol lookup; icontract class invariants on the repo's cache classes"
RULE = (
    "seeded rewrite scenarios (as C01, biased to later patches that name, "
    "branch to or call labels of blocks an earlier modification moved, "
    "split, joined or deleted). Monitor 1: scenarios with at most one "
    "modification per block are applied in one context and again one "
    "modification per context in address order; UUID-free canonical dumps "
    "(temporary-label suffixes normalised, addresses ignored) must be equal "
    "and both or neither must raise. Monitor 2: at every hook event "
    "(apply begin/end, before each patch is assembled, after each insert and "
    "delete) block ordering vs address order, functions_by_block vs "
    "functionBlocks, return-edge cache vs CFG scan, reference cache (read-"
    "only tree walk) vs a dict model maintained by interposition, and every "
    "module symbol the assembler resolves must have a direct referent. "
    "Monitor 3: icontract invariants after every public operation of "
    "ReturnEdgeCache, BlockOrdering, ReferenceCache. non-trivial = apply() "
    "returned with >=1 edit and hook events observed; distinct = shape "
    "signature (+ 'diff' when the differential ran)."
)
ASSUMPTIONS = [
    "the differential is restricted to scenarios with at most one modification per original block, where original block handles and offsets stay valid for one-at-a-time application",
    "block-ordering ground truth: (interval start address, block offset), ties among zero-sized blocks not judged",
]
BUDGET = {"quick": (3000, 45), "thorough": (80000, 540)}
REQUIRED_COUNTERS = ["hook_events", "ordering_comparisons",
                     "return_edge_comparisons", "reference_comparisons",
                     "contract_evaluations", "differential_runs",
                     "assembler_lookups"]


def setup_worker(tier):
    contracts.install()


def gen_case(rng, tier, index):
    from .. import gen_rewrite
    g = gen_rewrite.Gen(rng, tier)
    g.module()
    if index % 2 == 0:
        g.one_per_block = True
    g.edits()
    return g.case


def one_mod_per_block(case):
    seen = set()
    for e in case["edits"]:
        blocks = [e["b"]] if e["op"] != "delfn" else next(
            f["blocks"] for f in case["funcs"] if f["name"] == e["f"])
        for b in blocks:
            if b in seen:
                return False
            seen.add(b)
    return True


def block_order(case):
    order = {}
    k = 0
    for s in case["secs"]:
        for iv in s["ivs"]:
            for b in iv["blocks"]:
                order[b["id"]] = k
                k += 1
    return order


def run_sequential(case, seed=0):
    rewrite.install()
    from gtirb_rewriting import RewritingContext
    rng = random.Random(f"uuid:{seed}")
    bu, lst0 = irbuild.build(case, rng)
    bu.item_offsets = {bid: lst0.item_offsets(bid) for bid in lst0.block_info}
    m = bu.module
    order = block_order(case)

    # delete_function is a set of per-block proxy deletions; one-at-a-time
    # application in address order therefore interleaves them with the other
    # modifications block by block
    steps = []
    for eid, e in enumerate(case["edits"]):
        if e["op"] == "delfn":
            for b in next(f["blocks"] for f in case["funcs"]
                          if f["name"] == e["f"]):
                n = len(lst0.block_info[b]["blk"]["items"])
                steps.append((order[b], eid, {"op": "del", "b": b, "i": 0,
                                              "n": n, "proxy": True}))
        else:
            steps.append((order[e["b"]], eid, e))
    rec = rewrite.Recorder()
    exc = None
    for _, eid, e in sorted(steps, key=lambda x: x[0]):
        have_fn = "functionEntries" in m.aux_data and \
            "functionBlocks" in m.aux_data
        functions = gtirb_functions.Function.build_functions(m) \
            if have_fn else []
        try:
            ctx = RewritingContext(m, functions)
            _register_one(case, eid, e, bu, ctx, rec, functions)
            ctx.apply()
            relayout(case, bu)
        except Exception as x:  # noqa
            exc = x
            break
    return bu, exc


def relayout(case, bu):
    """
    The library's final re-layout (gtirb_layout) may permute intervals that
    are not connected by fallthrough edges; between the steps of a
    one-at-a-time application the harness lays the module out again in the
    original interval order so that 'next block by address' keeps meaning
    the same thing as in the batch run.
    """
    m = bu.module
    for si, row in enumerate(bu.intervals):
        addr = irbuild.SEC_BASE * (si + 1)
        for ii, bi in enumerate(row):
            if bi.section is None:
                continue
            if ii:
                addr += case["secs"][si]["ivs"][ii].get("gap", 0)
            bi.address = addr
            addr += bi.size
        sect = bu.sections[si]
        for bi in sect.byte_intervals:
            if all(bi is not o for o in row):
                bi.address = addr
                addr += bi.size + 16
    known = {id(s) for s in bu.sections}
    base = irbuild.SEC_BASE * (len(bu.sections) + 1)
    for s in sorted(m.sections, key=lambda s: s.name):
        if id(s) in known:
            continue
        addr = base
        for bi in sorted(s.byte_intervals, key=lambda b: b.size):
            bi.address = addr
            addr += bi.size + 16
        base += irbuild.SEC_BASE


def _register_one(case, eid, e, bu, ctx, rec, functions):
    isa = case["isa"]
    blk = bu.blocks[e["b"]]
    offs = bu.item_offsets[e["b"]]
    off = offs[e["i"]]
    if e["op"] == "del":
        ctx.delete_at(blk, off, offs[e["i"] + e["n"]] - off,
                      retarget_to_proxy=e.get("proxy", False))
        return
    p = e["p"]
    patch = bytes.fromhex(p["bytes"]) if "bytes" in p else \
        rewrite.make_patch(isa, p, eid, rec)
    if e["op"] == "ins":
        ctx.insert_at(blk, off, patch)
    else:
        ctx.replace_at(blk, off, offs[e["i"] + e["n"]] - off, patch)


def facets(case, bu):
    """observable facets of a rewritten module, UUID- and layout-free"""
    from .. import irview
    ob = irview.observe(bu, case["isa"])
    m = bu.module
    syms = set()
    pname = {}
    for name, gots in ob.symbols.items():
        for g in gots:
            if g[0] == "pos":
                syms.add((name, "pos", g[1], g[2]))
            elif g[0] == "proxy":
                pname.setdefault(g[1], set()).add(name)
                syms.add((name, "proxy"))
            else:
                syms.add((name, g[0]))
    groups = frozenset(frozenset(v) for v in pname.values())

    def tgt(t):
        if t[0] == "proxy":
            return ("proxy", tuple(sorted(pname.get(t[1], ()))))
        return t
    edges = {(si, p, et, c, d, tgt(t)) for (si, p, et, c, d, t, o)
             in ob.edges if o != "zero"}
    fb = m.aux_data.get("functionBlocks")
    fn = m.aux_data.get("functionNames")
    fe = m.aux_data.get("functionEntries")
    attr = set()
    entries = set()
    if fb is not None and fn is not None:
        nm = {fu: getattr(s, "name", None) for fu, s in fn.data.items()}
        owner = {}
        for fu, blocks in fb.data.items():
            for b in blocks:
                owner[id(b)] = nm.get(fu)
        for pos, info in ob.instrs.items():
            attr.add((pos, owner.get(id(info["block"]))))
        if fe is not None:
            for fu, blocks in fe.data.items():
                for b in blocks:
                    if b.size:
                        entries.add((nm.get(fu), ob.blockpos(b)))
    ann = set()
    import gtirb
    base = {}
    for si, row in enumerate(bu.intervals):
        for ii, bi in enumerate(row):
            base[id(bi)] = (si, ii)
    for table in ("comments", "padding", "symbolicExpressionSizes"):
        t = m.aux_data.get(table)
        if t is None:
            continue
        for off, val in t.data.items():
            el = off.element_id
            if isinstance(el, gtirb.ByteInterval):
                w, p = base.get(id(el)), off.displacement
            else:
                bi = getattr(el, "byte_interval", None)
                w = base.get(id(bi)) if bi is not None else None
                p = el.offset + off.displacement if bi is not None else None
            ann.add((table, w, p, val))
    exprs = set()
    for si, row in enumerate(bu.intervals):
        for ii, bi in enumerate(row):
            for off, e in bi.symbolic_expressions.items():
                exprs.add((si, ii, off, tuple(s.name for s in e.symbols),
                           getattr(e, "offset", None),
                           tuple(sorted(str(a) for a in e.attributes))))
    boundaries = {(ob.blockpos(b), b.size) for b in ob.code_blocks}
    return {
        "bytes": tuple(tuple(r) for r in ob.bytes),
        "symbols": syms, "proxy-groups": groups, "edges": edges,
        "function-attribution": attr, "function-entries": entries,
        "annotations": ann, "expressions": exprs,
        "block-boundaries": boundaries,
    }


def run_case(case):
    from gtirb_rewriting import rewriting as rw
    viol = []
    ctr = {"differential_runs": 0, "contract_evaluations": 0}
    if rw._verif is None:
        return {"sig": None, "violations": [],
                "inconclusive": "hook-disabled"}
    mon = hooks.CacheMonitor()
    before_counts = dict(contracts.COUNTS)
    contracts.drain()

    def before(r):
        mon.install_shadow(r.bu.module)

    rw._verif.register(mon)
    try:
        r = rewrite.run(case, before_apply=before)
    finally:
        rw._verif.unregister(mon)
        mon.uninstall()
    for k, v in mon.ctr.items():
        ctr[k] = v
    for k, msg in mon.viol:
        viol.append({"key": k, "msg": msg})
    for cls, what in contracts.drain():
        viol.append({"key": f"contract:{cls}:{what}", "msg": what})
    ctr["contract_evaluations"] = sum(
        contracts.COUNTS[k] - before_counts[k] for k in contracts.COUNTS)
    skip = None
    if r.exception is not None:
        kind, key = oracles.classify_apply_exception(case, r.exception)
        if kind == "raised":
            msg = "".join(traceback.format_exception(
                type(r.exception), r.exception,
                r.exception.__traceback__))[-2000:]
            viol.append({"key": key, "msg": msg})
        else:
            ctr["precondition_refusals"] = 1
        skip = key
    did_diff = False
    if one_mod_per_block(case) and case["edits"]:
        bu2, exc2 = run_sequential(case)
        ctr["differential_runs"] = 1
        did_diff = True
        if (r.exception is None) != (exc2 is None):
            # loud refusals of either mode are not judged
            k1 = oracles.classify_apply_exception(case, r.exception)[0] \
                if r.exception is not None else None
            k2 = oracles.classify_apply_exception(case, exc2)[0] \
                if exc2 is not None else None
            if "refused" not in (k1, k2):
                which = "batch" if r.exception is not None else "sequential"
                e = r.exception or exc2
                viol.append({
                    "key": f"differential:only-{which}-raises:"
                           f"{type(e).__name__}",
                    "msg": repr(e)[:300]})
        elif r.exception is None:
            fa = facets(case, r.bu)
            fb = facets(case, bu2)
            zero = any(sz == 0 for _, sz in fa["block-boundaries"] |
                       fb["block-boundaries"])
            sfx = ":retained-zero-sized-block" if zero else ""
            for name in fa:
                if fa[name] != fb[name]:
                    only_a = fa[name] - fb[name] if isinstance(
                        fa[name], (set, frozenset)) else fa[name]
                    only_b = fb[name] - fa[name] if isinstance(
                        fb[name], (set, frozenset)) else fb[name]
                    viol.append({
                        "key": f"differential:{name}-differ{sfx}",
                        "msg": f"batch-only {sorted(only_a, key=repr)[:6]} "
                               f"sequential-only "
                               f"{sorted(only_b, key=repr)[:6]}"})
    sig = None
    if skip is None and case["edits"] and mon.ctr["hook_events"]:
        sig = rwbase.shape_signature(case) + ("|diff" if did_diff else "")
    return {"sig": sig, "violations": viol, "counters": ctr}
