"""C10: no-op rewrites are the identity; split/join round-trips; alignment."""
import random

import gtirb

from .. import canon, gen_rewrite, irbuild, irview, oracles, rewrite, vocab
from . import rwbase

PROP = "C10"
LEVEL = "exploration"
TECHNIQUE = "snapshot/canonical-dump monitors around apply() and around direct calls of split_byte_interval / join_byte_intervals; alignment oracle on rewritten modules"
RULE = (
    "three workloads: (a) generated modules (as C01, plus uninitialized "
    "interval tails and alignment entries) go through apply() with no "
    "modification and the canonical dump before/after must be equal apart "
    "from leafFunctions and explicit padding of uninitialized bytes; (b) "
    "random byte intervals (0-5 blocks incl. overlapping, zero-sized, gaps "
    "before/between/after, uninitialized tails, symbolic expressions and "
    "offset-keyed table entries at any offset, with/without alignment and "
    "custom tables, 1- and 4-byte nops) are split and re-joined, directly "
    "or after one piece grew (as an edit would make it; every alignment "
    "entry must hold again, block bytes and order stay): grouping, "
    "block bytes/addresses/annotations after split, exact restoration after "
    "join; (c) rewrite scenarios on modules with alignment entries that hold: "
    "they must hold afterwards and bytes not in the edited listing must be "
    "whole nops after code / zeros after data covered by blocks. "
    "non-trivial = at least one comparison on a non-empty layout; distinct = "
    "(workload, layout-shape signature)."
    " Workload (c) patches carry alignment directives: the requirement"
    " of a patch's leading directives must hold at its marker"
    " instruction."
)
RULE += (
    " No-op rewrites of a .bss-like tail (gap of uninitialised bytes + data block without bytes) must equal the input with whole nops in a code block / zeros in a data block in the gap (a gap behind code that is no multiple of the nop is refused);"
    " split: tables are filled in shuffled order and every entry must lie inside the piece it is keyed to;"
    " 40% of the PE modules of the alignment workload have no alignment table;"
    " join with per-decode-mode nop encodings: a padding block has the decode mode of the block in front of it; split/join with tables=[] must leave the module's own tables untouched."
)
ASSUMPTIONS = [
    "PaddingError is an accepted outcome only when the required padding is not a multiple of the nop size",
    "the clause about alignment of patch-added blocks is judged only through the module-level alignment check (upstream pins that .align inside an interval is recorded, not padded; see known findings)",
]
BUDGET = {"quick": (18000, 40), "thorough": (300000, 480)}
REQUIRED_COUNTERS = ["noop_applies", "split_join_roundtrips",
                     "alignment_checks"]


def shuffled(rng, items):
    out = sorted(items)
    rng.shuffle(out)
    return out


def gen_case(rng, tier, index):
    w = index % 3
    if w == 0:
        g = gen_rewrite.Gen(rng, tier)
        case = g.module()
        case["edits"] = []
        case["workload"] = "noop"
        case["uninit_tail"] = rng.choice([0, 0, 3, 8])
        if rng.random() < 0.3:
            # .bss-like: behind the last block of a section a gap of
            # uninitialised bytes and a data block without bytes
            case["uninit_tail"] = 0
            case["bss_gap"] = [rng.randrange(len(case["secs"])),
                               rng.choice([1, 2, 3, 4, 6, 8]),
                               rng.choice([4, 8])]
        case["auto_align"] = rng.random() < 0.5
        case["align_seed"] = rng.randrange(1 << 30)
        return case
    if w == 1:
        size = rng.choice([0, 1, 2, 4, 8, 12, 16, 24])
        nblocks = rng.randrange(0, 6)
        blocks = []
        for _ in range(nblocks):
            off = rng.randrange(0, size + 1)
            sz = rng.choice([0, 0, 1, 2, 3, 4, size]) if size else 0
            sz = min(sz, size - off)
            blocks.append([off, sz, rng.random() < 0.6])
        init = size if rng.random() < 0.6 else rng.randrange(0, size + 1)
        c = {"workload": "splitjoin", "size": size, "blocks": blocks,
             "init": init,
             "contents": rng.randbytes(init).hex(),
             "address": rng.choice([None, 0x1000, 0x1003, 0x2008]),
             "exprs": sorted({rng.randrange(0, max(size, 1))
                              for _ in range(rng.randrange(0, 4))})
             if size else [],
             # (recorded in any order: tables are dicts)
             "ann": shuffled(rng, {rng.randrange(0, size + 1)
                                   for _ in range(rng.randrange(0, 5))}),
             "tables": rng.choice(["default", "custom", "none"]),
             "alignment": rng.choice([None, "table", "table"]),
             "aligns": [rng.choice([1, 2, 4, 8, 16])
                        for _ in range(nblocks)],
             "align_pick": [rng.random() < 0.5 for _ in range(nblocks)],
             "isa": rng.choice(["x64", "arm64"]),
             "in_module": rng.random() < 0.8,
             # code blocks in a non-default decode mode (with the nop of
             # that mode handed to the join)
             "thumb": rng.random() < 0.2,
             # an edit between split and join: one piece grows
             "grow": rng.choice([None, None,
                                 [rng.random(), rng.randrange(1, 6)]])}
        return c
    g = gen_rewrite.Gen(rng, tier, align_lines=True, other_sections=False)
    case = g.module()
    g.edits()
    case["workload"] = "align"
    case["auto_align"] = True
    case["align_seed"] = rng.randrange(1 << 30)
    if (case["fmt"] == "pe" and rng.random() < 0.4) or (
            case["fmt"] == "elf" and
            random.Random(f"elf-notable:{index}").random() < 0.15):
        # the way PE modules usually come: no alignment table at all (the
        # first patch with an alignment directive creates it)
        case["alignment_table"] = False
        case["auto_align"] = False
    return case


# ---------------------------------------------------------------- helpers
def apply_auto_align(case, bu):
    """alignment entries that hold by construction"""
    rng = random.Random(case["align_seed"])
    table = bu.module.aux_data["alignment"].data
    n = 0
    for bid, blk in sorted(bu.blocks.items()):
        if rng.random() < 0.4 and blk.address is not None:
            a = 16
            while a > 1 and blk.address % a:
                a //= 2
            if a > 1:
                table[blk] = a
                n += 1
    return n


def nop_of(isa):
    return vocab.NOP[isa]


# ---------------------------------------------------------------- (a)
def run_noop(case):
    viol, ctr = [], {"noop_applies": 0}
    bu, lst = irbuild.build(case)
    m = bu.module
    if case.get("auto_align"):
        apply_auto_align(case, bu)
    tail = case.get("uninit_tail", 0)
    if tail:
        for row in bu.intervals:
            bi = row[-1]
            bi.size = bi.size + tail     # uninitialized tail, no block
    want_refusal = False
    twin = None
    if case.get("bss_gap"):
        # the one change a no-op rewrite makes: uninitialised bytes in front
        # of a later block become padding - whole nops in a code block behind
        # code, zeros in a data block behind data
        si, g, n = case["bss_gap"]

        def add_bss(b_, pad):
            bi = b_.intervals[si][-1]
            last = max(bi.blocks, key=lambda b: b.offset, default=None)
            if last is None or bi.size != len(bi.contents):
                return None
            old = bi.size
            code = isinstance(last, gtirb.CodeBlock)
            nop = nop_of(case["isa"])
            if pad:
                if code and g % len(nop):
                    return "refuse"
                bi.contents = bytes(bi.contents) + (
                    nop * (g // len(nop)) if code else bytes(g))
                pb = (gtirb.CodeBlock if code else gtirb.DataBlock)(
                    offset=old, size=g)
                pb.byte_interval = bi
            bi.size = old + g + n
            blk = gtirb.DataBlock(offset=old + g, size=n)
            blk.byte_interval = bi
            return "ok"
        r1 = add_bss(bu, False)
        if r1 is not None:
            bu2, _ = irbuild.build(case)
            if case.get("auto_align"):
                apply_auto_align(case, bu2)
            r2 = add_bss(bu2, True)
            if r2 == "refuse":
                want_refusal = True
            else:
                twin = canon.dumps(bu2.ir, skip_tables={"leafFunctions"})
            ctr["bss_gaps"] = 1
    before = canon.dumps(bu.ir, skip_tables={"leafFunctions"})
    if twin is not None:
        before = twin
    import gtirb_functions
    from gtirb_rewriting import RewritingContext
    fns = gtirb_functions.Function.build_functions(m) \
        if "functionBlocks" in m.aux_data else []
    cfg_obj = bu.ir.cfg
    ctx = RewritingContext(m, fns)
    try:
        ctx.apply()
    except Exception as exc:  # noqa
        if want_refusal and type(exc).__name__ == "PaddingError":
            ctr["expected_padding_refusals"] = 1
            return {"sig": f"noop:{case['isa']}:bss-gap-refused",
                    "violations": viol, "counters": ctr}
        raise
    if want_refusal:
        viol.append({"key": "noop:gap-behind-code-not-a-multiple-of-the-nop"
                            "-accepted", "msg": str(case["bss_gap"])})
        return {"sig": None, "violations": viol, "counters": ctr}
    ctr["noop_applies"] = 1
    after = canon.dumps(bu.ir, skip_tables={"leafFunctions"})
    if bu.ir.cfg is not cfg_obj:
        viol.append({"key": "noop:cfg-object-replaced", "msg": ""})
    if before != after and any(iv.get("uninit") for sec in case["secs"]
                               for iv in sec["ivs"]):
        # uninitialised bytes that blocks cover, with further (wholly
        # uninitialised) blocks behind them: re-joining the pieces spells
        # the zeros out.  The image must be the same.
        import json

        def image(dump):
            d_ = json.loads(dump)
            for md in d_["modules"]:
                for sec in md["sections"]:
                    for iv in sec["intervals"]:
                        iv["contents"] = iv["contents"].ljust(
                            2 * iv["size"], "0")
                        iv["init"] = None
            return json.dumps(d_, sort_keys=True)
        if image(before) == image(after):
            ctr["noop_uninitialised_bytes_spelled_out"] = 1
            after = before
    if before != after:
        import json
        d = canon.diff_keys(json.loads(before), json.loads(after))
        area = sorted({"/".join(p.split("/")[3:5]) if p.startswith(
            "/modules") else p.split("/")[1].split("[")[0] for p in d})
        viol.append({"key": "noop:dump-differs:" + ",".join(area)[:80],
                     "msg": str(d)})
    nblocks = sum(1 for _ in m.byte_blocks)
    sig = f"noop:{case['isa']}:{len(case['secs'])}s:" \
          f"{min(nblocks, 8)}b:tail{tail}:al{int(case.get('auto_align'))}"
    return {"sig": sig if nblocks else None, "violations": viol,
            "counters": ctr}


# ---------------------------------------------------------------- (b)
def run_splitjoin(c):
    from gtirb_rewriting._adt import OffsetMapping
    from gtirb_rewriting.intervalutils import (PaddingError,
                                               join_byte_intervals,
                                               split_byte_interval)
    viol, ctr = [], {"split_join_roundtrips": 0, "split_checks": 0}
    isa = c["isa"]
    ir = gtirb.IR()
    m = gtirb.Module(name="t", isa=irbuild.ISA[isa],
                     file_format=gtirb.Module.FileFormat.ELF,
                     byte_order=gtirb.Module.ByteOrder.Little)
    m.ir = ir
    sec = gtirb.Section(name=".text")
    size = c["size"]
    bi = gtirb.ByteInterval(contents=bytes.fromhex(c["contents"]),
                            size=size, address=c["address"])
    if c["in_module"]:
        sec.module = m
    bi.section = sec
    sym = gtirb.Symbol("s", payload=None)
    sym.value = 7
    if c["in_module"]:
        sym.module = m
    blocks = []
    for off, sz, code in c["blocks"]:
        b = (gtirb.CodeBlock if code else gtirb.DataBlock)(offset=off,
                                                            size=sz)
        if code and c.get("thumb"):
            b.decode_mode = gtirb.CodeBlock.DecodeMode.Thumb
        b.byte_interval = bi
        blocks.append(b)
    for off in c["exprs"]:
        bi.symbolic_expressions[off] = gtirb.SymAddrConst(off, sym, set())
    table = OffsetMapping()
    for off in c["ann"]:
        table[gtirb.Offset(bi, off)] = f"a{off}"
    block_table = {}
    for k, b in enumerate(blocks):
        table[gtirb.Offset(b, 0)] = f"b{k}"
    if c["in_module"] and c["tables"] == "default":
        m.aux_data["comments"] = gtirb.AuxData(
            type_name="mapping<Offset,string>", data=table)
    untracked = None
    if c["in_module"] and c["tables"] == "none":
        # "update no tables": what the module's own tables say about this
        # interval stays as it is
        untracked = OffsetMapping()
        for off in c["ann"]:
            untracked[gtirb.Offset(bi, off)] = f"u{off}"
        m.aux_data["comments"] = gtirb.AuxData(
            type_name="mapping<Offset,string>", data=untracked)
        untracked_before = {(id(o.element_id), o.displacement): v
                            for o, v in untracked.items()}
    alignment = None
    if c["alignment"] == "table":
        alignment = {}
        # only requirements that hold before the split
        for k, b in enumerate(blocks):
            a = c["aligns"][k]
            addr = (c["address"] or 0) + b.offset
            while a > 1 and addr % a:
                a //= 2
            if a > 1 and c.get("align_pick", [True] * len(blocks))[k]:
                alignment[b] = a
    # snapshot
    base = c["address"] or 0
    snap_blocks = [(base + b.offset, b.size,
                    bytes(bi.contents[b.offset:b.offset + b.size]))
                   for b in blocks]
    snap_contents = bytes(bi.contents)
    snap_exprs = {base + o: e for o, e in bi.symbolic_expressions.items()}
    snap_ann = {base + o.displacement: v for o, v in table.items()
                if o.element_id is bi}
    snap_size, snap_init = bi.size, bi.initialized_size
    tables = None
    if c["tables"] == "custom":
        tables = [table]
    elif c["tables"] == "none":
        tables = []
    try:
        parts = split_byte_interval(bi, alignment, tables)
    except Exception as exc:  # noqa
        return {"sig": None, "violations": [{
            "key": f"split:raises:{type(exc).__name__}",
            "msg": repr(exc)[:300]}], "counters": ctr}
    ctr["split_checks"] += 1
    if untracked is not None:
        now_ = {(id(o.element_id), o.displacement): v
                for o, v in untracked.items()}
        ctr["untracked_tables_checked"] = 1
        if now_ != untracked_before:
            viol.append({"key": "split:table-changed-although-none-was-"
                                "to-be-updated", "msg": ""})
    track_tables = c["tables"] == "custom" or (
        c["tables"] == "default" and c["in_module"])
    # --- split oracle
    if parts[0] is not bi:
        viol.append({"key": "split:first-interval-not-original", "msg": ""})
    seen = set()
    for p in parts:
        for b in p.blocks:
            seen.add(id(b))
    if seen != {id(b) for b in blocks}:
        viol.append({"key": "split:blocks-lost-or-duplicated", "msg": ""})
    # grouping: blocks overlap iff same interval (transitively)
    groups = []
    for k in sorted((k for k in range(len(blocks)) if snap_blocks[k][1]),
                    key=lambda k: snap_blocks[k][0]):
        a, sz, _ = snap_blocks[k]
        if groups and a < groups[-1][1]:
            groups[-1][0].append(k)
            groups[-1][1] = max(groups[-1][1], a + sz)
        else:
            groups.append([[k], a + sz])
    # zero-sized blocks overlap nothing: only blocks with bytes are judged
    want_groups = sorted(sorted(g[0]) for g in groups)
    got_groups = sorted(
        g for g in (sorted(blocks.index(b) for b in p.blocks if b.size)
                    for p in parts) if g)
    if want_groups != got_groups:
        viol.append({"key": "split:grouping-differs",
                     "msg": f"want {want_groups} got {got_groups}"})
    for p in parts:
        for b in p.blocks:
            if b.size == 0 and not (0 <= b.offset <= p.size):
                viol.append({"key": "split:zero-sized-block-outside",
                             "msg": f"{b.offset} of {p.size}"})
    addressed = c["address"] is not None
    cur = base
    total = b""
    for p in parts:
        pbase = p.address if addressed else cur
        if addressed and p.address is None:
            viol.append({"key": "split:interval-without-address", "msg": ""})
            pbase = cur
        for b in p.blocks:
            k = blocks.index(b)
            a, sz, data = snap_blocks[k]
            if b.size != sz:
                viol.append({"key": "split:block-size-changed", "msg": ""})
            if pbase + b.offset != a:
                viol.append({"key": "split:block-address-changed",
                             "msg": f"block {k}: {pbase + b.offset} != {a}"})
            have = bytes(p.contents[b.offset:b.offset + b.size])
            if have != data:
                viol.append({"key": "split:block-bytes-changed",
                             "msg": f"block {k}: {have.hex()} != "
                                    f"{data.hex()}"})
        for off, e in p.symbolic_expressions.items():
            if snap_exprs.get(pbase + off) is not e:
                viol.append({"key": "split:expression-moved",
                             "msg": f"{pbase + off}"})
            if not (0 <= off < max(p.size, 1)):
                viol.append({"key": "split:expression-outside-interval",
                             "msg": f"{off} of {p.size}"})
        cur = pbase + p.size
        total += bytes(p.contents)
    nexpr = sum(len(p.symbolic_expressions) for p in parts)
    if nexpr != len(snap_exprs):
        viol.append({"key": "split:expression-count-changed",
                     "msg": f"{nexpr} != {len(snap_exprs)}"})
    if sum(p.size for p in parts) != snap_size:
        viol.append({"key": "split:total-size-changed",
                     "msg": f"{sum(p.size for p in parts)} != {snap_size}"})
    if track_tables:
        got_ann = {}
        cur = base
        for p in parts:
            pbase = p.address if addressed and p.address is not None else cur
            for o, v in table.items():
                if o.element_id is p:
                    got_ann[pbase + o.displacement] = v
            cur = pbase + p.size
        if got_ann != snap_ann:
            viol.append({"key": "split:annotation-moved",
                         "msg": f"{got_ann} != {snap_ann}"})
        # ... and every entry lies inside the piece it is keyed to (an entry
        # at the very end of a piece belongs to the next one)
        for o, v in table.items():
            for k, p in enumerate(parts):
                if o.element_id is p and (
                        o.displacement > p.size or (
                            o.displacement == p.size and p.size and
                            k + 1 < len(parts))):
                    viol.append({
                        "key": "split:annotation-outside-its-piece",
                        "msg": f"{v} at {o.displacement} of a piece of "
                               f"size {p.size}"})

    for k, b in enumerate(blocks):
        if table.get(gtirb.Offset(b, 0)) != f"b{k}":
            viol.append({"key": "split:block-keyed-annotation-changed",
                         "msg": str(k)})
    # --- join
    nop = nop_of(isa)
    enc = None
    if c.get("thumb"):
        nop = b"\x00\xbf"
        enc = {gtirb.CodeBlock.DecodeMode.Thumb: nop}
    grow = c.get("grow") if snap_init == snap_size else None
    if grow:
        # what an edit does: the bytes of one piece grow (here: behind its
        # blocks), everything behind it has to move and be re-aligned
        gp = parts[int(grow[0] * len(parts)) % len(parts)]
        gp.contents = bytes(gp.contents) + nop * grow[1]
        gp.size = len(gp.contents)
        return finish_grown(c, bi, parts, blocks, snap_blocks, alignment,
                            tables, nop, viol, ctr)
    try:
        joined = join_byte_intervals(list(parts), nop_of(isa), alignment,
                                     tables, enc)
        outcome = "ok"
    except PaddingError:
        outcome = "padding-error"
    except Exception as exc:  # noqa
        viol.append({"key": f"join:raises:{type(exc).__name__}",
                     "msg": repr(exc)[:300]})
        outcome = "exc"
    if outcome == "ok":
        ctr["split_join_roundtrips"] += 1
        check_padding_modes(c, bi, blocks, viol, ctr)
        if joined is not bi:
            viol.append({"key": "join:destination-not-first", "msg": ""})
        # exact restoration when fully initialised and alignment holds
        aligned_ok = True
        if alignment:
            for b, a in alignment.items():
                k = blocks.index(b)
                if snap_blocks[k][0] % a:
                    aligned_ok = False
        full = snap_init == snap_size
        if full and aligned_ok:
            if bytes(bi.contents) != snap_contents or bi.size != snap_size:
                viol.append({
                    "key": "join:contents-not-restored",
                    "msg": f"{bytes(bi.contents).hex()} != "
                           f"{snap_contents.hex()}"})
            for k, b in enumerate(blocks):
                a, sz, data = snap_blocks[k]
                if b.byte_interval is not bi or base + b.offset != a or \
                        b.size != sz:
                    viol.append({"key": "join:block-not-restored",
                                 "msg": str(k)})
            if len(bi.blocks) != len(blocks):
                viol.append({"key": "join:extra-blocks",
                             "msg": f"{len(bi.blocks)} != {len(blocks)}"})
            got = {base + o: e for o, e in bi.symbolic_expressions.items()}
            if set(got) != set(snap_exprs) or any(
                    got[o] is not snap_exprs[o] for o in got):
                viol.append({"key": "join:expressions-not-restored",
                             "msg": f"{sorted(got)} != {sorted(snap_exprs)}"})
            if track_tables:
                got_ann = {base + o.displacement: v
                           for o, v in table.items() if o.element_id is bi}
                if got_ann != snap_ann:
                    viol.append({"key": "join:annotations-not-restored",
                                 "msg": f"{got_ann} != {snap_ann}"})
        else:
            # not fully initialised: the initialised bytes stay, everything
            # added is nop/zero padding, blocks inside the initialised part
            # keep their bytes
            now = bytes(bi.contents)
            if now[:len(snap_contents)] != snap_contents:
                viol.append({"key": "join:initialised-bytes-changed",
                             "msg": f"{now.hex()} vs {snap_contents.hex()}"})
            rest = now[len(snap_contents):]
            if any(x not in (0,) + tuple(nop) for x in rest):
                viol.append({"key": "join:padding-not-nop-or-zero",
                             "msg": rest.hex()})
            for k, b in enumerate(blocks):
                a, sz, data = snap_blocks[k]
                if len(data) == sz and b.byte_interval is bi:
                    have = bytes(bi.contents[b.offset:b.offset + b.size])
                    if have != data or base + b.offset != a:
                        viol.append({"key": "join:block-bytes-changed",
                                     "msg": str(k)})
    elif outcome == "padding-error":
        if len(nop) == 1:
            viol.append({"key": "join:padding-error-with-1-byte-nop",
                         "msg": ""})
    shape = "z" if any(sz == 0 for _, sz, _ in c["blocks"]) else ""
    shape += "o" if any(len(g[0]) > 1 for g in groups) else ""
    shape += "u" if snap_init != snap_size else ""
    sig = (f"sj:{isa}:{len(blocks)}b:{len(groups)}g:{shape}:"
           f"{c['tables']}:{c['alignment']}:{outcome}:"
           f"{'addr' if addressed else 'noaddr'}:{len(c['exprs'])}e")
    return {"sig": sig if size or blocks else None, "violations": viol,
            "counters": ctr}


def check_padding_modes(c, bi, blocks, viol, ctr):
    """padding behind code is code of the same decode mode"""
    known = {id(b) for b in blocks}
    for pb in bi.blocks:
        if id(pb) in known or not isinstance(pb, gtirb.CodeBlock):
            continue
        ctr["padding_code_blocks_checked"] = ctr.get(
            "padding_code_blocks_checked", 0) + 1
        want = gtirb.CodeBlock.DecodeMode.Thumb if c.get("thumb") \
            else gtirb.CodeBlock.DecodeMode.Default
        if pb.decode_mode != want:
            viol.append({"key": "join:padding-block-decode-mode-differs",
                         "msg": f"{pb.decode_mode} != {want}"})
            break


def finish_grown(c, bi, parts, blocks, snap_blocks, alignment, tables, nop,
                 viol, ctr):
    from gtirb_rewriting.intervalutils import (PaddingError,
                                               join_byte_intervals)
    # the library aligns, per piece, the first block (by offset) that has a
    # requirement; further aligned blocks of the same overlapping group are
    # only aligned as a consequence
    later_aligned = set()
    for p in parts:
        al = sorted((b for b in p.blocks if b in (alignment or {})),
                    key=lambda b: (b.offset, -alignment[b]))
        later_aligned |= {id(b) for b in al[1:]}
    order_before = [blocks.index(b) for p in parts
                    for b in sorted(p.blocks, key=lambda b: (b.offset,
                                                             blocks.index(b)))]
    enc = {gtirb.CodeBlock.DecodeMode.Thumb: nop} if c.get("thumb") \
        else None
    try:
        joined = join_byte_intervals(list(parts), nop_of(c["isa"]),
                                     alignment, tables, enc)
    except PaddingError:
        if len(nop) == 1:
            viol.append({"key": "join:padding-error-with-1-byte-nop",
                         "msg": "after growth"})
        return {"sig": f"sj:{c['isa']}:grown:padding-error",
                "violations": viol, "counters": ctr}
    except Exception as exc:  # noqa
        viol.append({"key": f"join:raises:{type(exc).__name__}:after-growth",
                     "msg": repr(exc)[:300]})
        return {"sig": None, "violations": viol, "counters": ctr}
    ctr["split_join_roundtrips"] += 1
    ctr["joins_after_growth"] = 1
    check_padding_modes(c, bi, blocks, viol, ctr)
    base = c["address"] or 0
    if joined is not bi:
        viol.append({"key": "join:destination-not-first", "msg": "grown"})
    for k, b in enumerate(blocks):
        a, sz, data = snap_blocks[k]
        if b.byte_interval is not joined or b.size != sz:
            viol.append({"key": "join:block-not-kept:after-growth",
                         "msg": str(k)})
            continue
        have = bytes(joined.contents[b.offset:b.offset + b.size])
        if have != data:
            viol.append({"key": "join:block-bytes-changed:after-growth",
                         "msg": f"{k}: {have.hex()} != {data.hex()}"})
    for i in range(len(order_before) - 1):
        k1, k2 = order_before[i], order_before[i + 1]
        if blocks[k1].offset > blocks[k2].offset:
            viol.append({"key": "join:block-order-changed:after-growth",
                         "msg": f"{k1} {k2}"})
            break
    nalign = 0
    for b, a in (alignment or {}).items():
        k = blocks.index(b)
        zctx = ""
        if not snap_blocks[k][1]:
            # a zero-sized block: one that stands where a block with bytes
            # ends or begins is a group (and a piece) of its own and is
            # aligned like any other; one inside the bytes of another block
            # cannot be
            a0 = snap_blocks[k][0]
            if any(sz_ and a_ < a0 < a_ + sz_
                   for a_, sz_, _ in snap_blocks):
                continue
            zctx = ":zero-sized"
        nalign += 1
        addr = base + b.offset
        if addr % a:
            viol.append({
                "key": "join:alignment-lost:after-growth" + zctx + (
                    ":not-the-first-aligned-block-of-its-group"
                    if id(b) in later_aligned else ""),
                "msg": f"block {k} at {addr:#x} not {a}-aligned"})
    ctr["alignment_checks_after_growth"] = nalign
    shape = "o" if len({id(p) for p in parts}) < len(blocks) else ""
    return {"sig": f"sj:{c['isa']}:grown:{len(blocks)}b:{shape}:"
                   f"{len(alignment or {})}a:{c['tables']}",
            "violations": viol, "counters": ctr}


# ---------------------------------------------------------------- (c)
def match_with_padding(exp_tokens, got, nop):
    """does got equal the token bytes with runs of whole nops or zeros
    inserted at token boundaries?  returns list of (after-kind, pad-kind, n)
    or None.  after-kind: 'code'|'data'|'start'"""
    import functools
    toks = [(t.data, t.t == "I") for t in exp_tokens]
    n = len(toks)

    def single(pos):
        out = []
        for kind, pad in (("nop", nop), ("zero", b"\0")):
            k = pos
            while got[k:k + len(pad)] == pad and k - pos < 64:
                k += len(pad)
                out.append((kind, k))
        return out

    def runs(pos):
        """one run, or two runs of different kinds back to back (padding for
        an uninitialised tail followed by alignment padding, or padding
        around a retained zero-sized block); yields (kinds, end)"""
        out = []
        for kind, k in single(pos):
            out.append((kind, k))
            for kind2, k2 in single(k):
                if kind2 != kind:
                    out.append((kind + "+" + kind2, k2))
        return out

    def cost(after, kind):
        want = {"code": "nop", "data": "zero"}.get(after)
        first = kind.split("+")[0]
        return (0 if want is None or want == first else 1) + (
            1 if "+" in kind else 0)

    @functools.lru_cache(maxsize=None)
    def go(i, pos):
        """(mismatches, parse) with the fewest padding-kind mismatches"""
        after = "start" if i == 0 else ("code" if toks[i - 1][1] else "data")
        if i == n:
            rest = got[pos:]
            if not rest:
                return (0, ())
            best = None
            for kind, k in runs(pos):
                if k == len(got):
                    c = (cost(after, kind), ((after, kind, k - pos, pos),))
                    best = c if best is None or c[0] < best[0] else best
            return best
        data, code = toks[i]
        best = None
        if got[pos:pos + len(data)] == data:
            best = go(i + 1, pos + len(data))
        for kind, k in runs(pos):
            if got[k:k + len(data)] == data:
                r = go(i + 1, k + len(data))
                if r is not None:
                    c = (r[0] + cost(after, kind),
                         ((after, kind, k - pos, pos),) + r[1])
                    if best is None or c[0] < best[0]:
                        best = c
        return best
    res = go(0, 0)
    return None if res is None else res[1]


def run_align(case):
    viol, ctr = [], {"alignment_checks": 0, "padding_bytes": 0}
    nalign = {}

    def before(r):
        if "alignment" not in r.bu.module.aux_data:
            nalign["n"], nalign["entries"] = 0, {}
            ctr["modules_without_alignment_table"] = 1
            return
        nalign["n"] = apply_auto_align(case, r.bu)
        nalign["entries"] = dict(
            r.bu.module.aux_data["alignment"].data)

    r = rewrite.run(case, before_apply=before)
    if r.exception is not None:
        from gtirb_rewriting.intervalutils import PaddingError
        if isinstance(r.exception, PaddingError):
            if len(nop_of(case["isa"])) == 1:
                viol.append({"key": "align:padding-error-with-1-byte-nop",
                             "msg": ""})
            return {"sig": None, "violations": viol, "counters": ctr}
        kind, key = oracles.classify_apply_exception(case, r.exception)
        if kind == "raised":
            viol.append({"key": key, "msg": repr(r.exception)[:300]})
        return {"sig": None, "violations": viol, "counters": ctr}
    m = r.bu.module
    table = m.aux_data["alignment"].data if "alignment" in m.aux_data \
        else {}
    held = 0
    info_items = {b["id"]: bool(b["items"]) for s_ in case["secs"]
                  for iv in s_["ivs"] for b in iv["blocks"]}
    input_empty = {id(g) for bid, g in r.bu.blocks.items()
                   if not info_items.get(bid, True)}
    for blk, a in nalign["entries"].items():
        # (a block the rewrite emptied keeps no requirement worth the name;
        # one that was zero-sized in the input does: its address is where
        # its labels are)
        if blk.byte_interval is None or (
                blk.size == 0 and id(blk) not in input_empty):
            continue
        if blk.size == 0:
            ctr["zero_sized_alignment_checks"] = ctr.get(
                "zero_sized_alignment_checks", 0) + 1
        ctr["alignment_checks"] += 1
        # (a patch inserted at the block's start may have asked for more: the
        # entry may grow; that requirement is judged with the patch's)
        if table.get(blk) != a and not (
                table.get(blk) and table[blk] % a == 0):
            viol.append({"key": "align:entry-changed-or-lost",
                         "msg": f"{a} -> {table.get(blk)}"})
            continue
        if blk.address % a:
            earlier = [b for b in blk.byte_interval.blocks
                       if b in table and b.offset < blk.offset]
            shared = [b for b in blk.byte_interval.blocks
                      if b in table and b is not blk
                      and b.offset == blk.offset]
            ctx = "later-aligned-block-of-interval" if earlier else (
                "aligned-block-sharing-its-offset-with-another" if shared
                else "first-aligned-block-of-interval")
            viol.append({"key": f"align:no-longer-holds:{ctx}",
                         "msg": f"address {blk.address:#x} % {a}"})
        else:
            held += 1
    # alignment a patch asks for: the instruction behind a group of
    # alignment directives at the start of a patch (its marker) stands at a
    # multiple of the strictest of them
    from .. import vocab as _vocab
    for eid, e in enumerate(case["edits"]):
        lines = e.get("p", {}).get("lines") if e.get("op") in (
            "ins", "rep") else None
        if not lines or lines[0].get("d") != "balign":
            continue
        want = 1
        first = None
        for ln in lines:
            if ln.get("d") == "balign":
                want = max(want, ln["n"])
            elif "k" in ln:
                first = ln
                break
        if first is None or first["k"] != "mark":
            continue
        needle = _vocab.encode(case["isa"], "mark", first["imm"])
        for row in r.bu.intervals:
            for bi in row:
                k = bytes(bi.contents).find(needle)
                if k >= 0 and bi.address is not None:
                    ctr["patch_alignment_checks"] = ctr.get(
                        "patch_alignment_checks", 0) + 1
                    if (bi.address + k) % want:
                        first_of_iv = any(
                            iv["blocks"] and iv["blocks"][0]["id"] == e["b"]
                            for s_ in case["secs"] for iv in s_["ivs"])
                        atab = r.bu.module.aux_data["alignment"].data
                        earlier = any(b in atab and b.offset < k
                                      for b in bi.blocks)
                        shared = any(b in atab and b.offset == k
                                     and b.size == 0 for b in bi.blocks)
                        ctx = ("mid-block" if e["i"] > 0 else
                               "first-block-of-interval" if first_of_iv
                               else "later-aligned-block-of-interval"
                               if earlier else
                               "aligned-block-sharing-its-offset-with-another"
                               if shared else "block-start")
                        viol.append({
                            "key": f"align:patch-requirement-not-met:{ctx}",
                            "msg": f"edit {eid}: {bi.address + k:#x} % "
                                   f"{want}"})
    lst = rewrite.expected(case)
    lst.layout()
    nop = nop_of(case["isa"])
    for si, ivs in enumerate(lst.secs):
        for ii, toks in enumerate(ivs):
            gbi = r.bu.intervals[si][ii]
            # uninitialised bytes read as zeros
            got = bytes(gbi.contents)[:gbi.size] + bytes(
                max(0, gbi.size - len(gbi.contents)))
            body = [t for t in toks if t.t in "ID"]
            pad = match_with_padding(body, got, nop)
            if pad is None:
                viol.append({"key": "align:bytes-not-listing-plus-padding",
                             "msg": f"sec {si} iv {ii}: {got.hex()}"})
                continue
            bi = r.bu.intervals[si][ii]
            for after, kind, nbytes, ppos in pad:
                ctr["padding_bytes"] += nbytes
                at_start = after == "start"
                if at_start:
                    # what precedes the interval in the section?
                    prev = None
                    for jj in range(ii - 1, -1, -1):
                        pb = [t for t in ivs[jj] if t.t in "ID"]
                        if pb:
                            prev = "code" if pb[-1].t == "I" else "data"
                            break
                    after = prev or "start"
                want = {"code": "nop", "data": "zero"}.get(after)
                kinds = kind.split("+")
                if len(kinds) == 2:
                    # second run: only next to a zero-sized block or behind an
                    # uninitialised tail; judged by the first run only
                    ctr["two_kind_padding_runs"] = ctr.get(
                        "two_kind_padding_runs", 0) + 1
                kind = kinds[0]
                if want is None or kind == want or not nbytes:
                    continue
                # a retained zero-sized block at the padding position decides
                # the kind of padding that follows it
                zk = {("nop" if isinstance(b, gtirb.CodeBlock) else "zero")
                      for b in bi.blocks if b.size == 0 and b.offset == ppos}
                if kind in zk:
                    ctr["padding_after_zero_sized_block"] = ctr.get(
                        "padding_after_zero_sized_block", 0) + 1
                    continue
                where = "at-interval-start-" if at_start else ""
                viol.append({
                    "key": f"align:{kind}-padding-{where}after-{after}",
                    "msg": f"sec {si} iv {ii}: {nbytes} bytes"})
    # padding must be covered by blocks
    for s in m.sections:
        for bi in s.byte_intervals:
            cov = bytearray(bi.size)
            for b in bi.blocks:
                for i in range(b.offset, min(b.offset + b.size, bi.size)):
                    cov[i] = 1
            if len(bi.contents) and not all(cov[:len(bi.contents)]) and \
                    ctr["padding_bytes"]:
                pass    # gaps existed in the input as well; not judged here
    sig = rwbase.shape_signature(case) + f"|al{min(nalign['n'], 3)}" \
        if nalign["n"] and case["edits"] else None
    return {"sig": sig, "violations": viol, "counters": ctr}


def run_case(case):
    w = case.get("workload")
    if w == "noop":
        return run_noop(case)
    if w == "splitjoin":
        return run_splitjoin(case)
    return run_align(case)
