"""C05: output IR is closed, well-formed and serializable, even on failure."""
import traceback

import gtirb

from .. import irsan, oracles, rewrite
from .. import gen_rewrite
from . import rwbase

PROP = "C05"
LEVEL = "fault_enumeration"
TECHNIQUE = "IR sanitizer (whole-IR invariant monitor + protobuf round trip) after every apply(), plus fault injection into every patch callback with a hook-side snapshot of the return-edge cache"
RULE = (
    "every seeded rewrite scenario (as C01; PE modules with a "
    "peSafeExceptionHandlers table, 20% with inserted functions) is applied "
    "once with the IR "
    "sanitizer run on the result (blocks inside intervals, no new overlaps, "
    "CFG endpoints / symbol referents / expression symbols / every node in "
    "every aux table attached, zero-sized blocks only in documented cases, "
    "addresses, protobuf round trip of a canonical dump); then for k = 1..N "
    "(N = number of patch callbacks of that scenario, capped at 8) the "
    "scenario is re-run on a fresh module with an exception raised (or "
    "unparseable assembly returned) in the k-th callback and the state left "
    "behind is checked: ir.cfg is the caller's CFG object, plain, holding "
    "exactly the edges the cache held at the last quiescent point (hook "
    "snapshot), no symbol stranded without referent, still serializable. "
    "non-trivial = at least one sanitizer pass on a rewritten module; "
    "distinct = shape signature x number of fault points."
    " 12% of the IRs hold a second module the rewrite is not about (twin with the same names, or unrelated): every facet of it (bytes, blocks, symbols, proxies, expressions, every aux table except the library's leafFunctions bookkeeping, its edges in ir.cfg) must be unchanged and it must still be closed, after apply() and after every injected fault."
    " Patches may carry real alignment directives; 40% of the modules have alignment entries on input blocks; zero-sized input blocks as in C01; in 40% every unknown return target is one shared proxy; 30% of the ELF modules designate DT_INIT/DT_FINI blocks, which must name the code where the block's first label is afterwards; 60% of the data lines of data patches are written as typed directives (.ascii: an encodings entry); 30% of the modules have types/encodings entries on input data blocks."
    " 6% of the modules are big-endian MIPS32 ELF."
)
ASSUMPTIONS = [
    "faults are injected only at patch callbacks (as the property says)",
    "on the failure path byte intervals may stay split and zero-sized helper blocks may remain; only closed-ness and serializability are required there",
]
BUDGET = {"quick": (2500, 45), "thorough": (60000, 540)}
REQUIRED_COUNTERS = ["sanitizer_passes", "fault_runs", "hook_events",
                     "failure_states_checked"]

MAXK = 8


def gen_case(rng, tier, index):
    case = gen_rewrite.generate(rng, tier, align_lines=True,
                                 shared_blocks=index % 3 == 0,
                                 mips_p=0.06)
    if rng.random() < 0.4:
        # alignment entries on input blocks (requirements that hold)
        case["align_seed"] = rng.randrange(1 << 30)
    # every unknown return target is one shared proxy
    case["shared_return_proxy"] = rng.random() < 0.4
    if rng.random() < 0.2:
        from . import c06
        case["newfuncs"] = [c06.new_function(rng, case, k)
                            for k in range(rng.choice([1, 1, 2]))]
    data_ids = {b["id"] for s in case["secs"] for iv in s["ivs"]
                for b in iv["blocks"] if not b["code"]}
    for e in case["edits"]:
        if e.get("b") in data_ids and "lines" in e.get("p", {}):
            for ln in e["p"]["lines"]:
                if ln.get("k") == "bytes" and rng.random() < 0.6:
                    # typed data (an entry in the encodings table)
                    ln["as"] = "ascii"
    if rng.random() < 0.3:
        # input data blocks with entries in the types / encodings tables
        case["typed_data"] = sorted(b for b in data_ids
                                    if rng.random() < 0.6)
    if case["fmt"] == "elf" and rng.random() < 0.3:
        # DT_INIT / DT_FINI: blocks the loader calls (elfDynamicInit /
        # elfDynamicFini tables); like the entry point they follow their
        # block's code
        code = [b for s in case["secs"] for iv in s["ivs"]
                for b in iv["blocks"] if b["code"] and b["items"]
                and b["labels"]]
        if code:
            case["dyn_init"] = rng.choice(code)["id"]
            case["dyn_fini"] = rng.choice(code)["id"]
    return case


DYN_TABLES = (("dyn_init", "elfDynamicInit"), ("dyn_fini", "elfDynamicFini"))


def check_dyn_tables(case, r, viol, ctr):
    """
    The init / fini tables name the code that stands where the designated
    block's first label now is (judged when that label still resolves to
    the start of a code block; a label that went to a proxy, to data or to
    the end of a block is only counted).
    """
    m = r.bu.module
    info = {b["id"]: b for s in case["secs"] for iv in s["ivs"]
            for b in iv["blocks"]}
    for ck, tname in DYN_TABLES:
        if case.get(ck) is None:
            continue
        sym = r.bu.symbols.get(info[case[ck]]["labels"][0])
        ref = sym.referent if sym is not None else None
        if not isinstance(ref, gtirb.CodeBlock) or sym.at_end or \
                ref.module is not m:
            ctr["dyn_tables_unjudged"] = ctr.get("dyn_tables_unjudged",
                                                 0) + 1
            continue
        ctr["dyn_tables_checked"] = ctr.get("dyn_tables_checked", 0) + 1
        t = m.aux_data.get(tname)
        blk = t.data if t is not None else None
        if not isinstance(blk, gtirb.CodeBlock) or blk.module is not m:
            viol.append({"key": f"dyn:{tname}:lost",
                         "msg": f"{blk!r}"[:200]})
        elif blk.address != ref.address:
            viol.append({"key": f"dyn:{tname}:not-where-its-code-is",
                         "msg": f"{blk.address:#x} vs label at "
                                f"{ref.address:#x}"})


def zero_block_context(case, r, block):
    """was the documented reason (incoming control flow) removed by another
    edit of the same rewrite?"""
    bid = next((b for b, g in r.bu.blocks.items() if g is block), None)
    lst = rewrite.expected(case)
    if bid is None:
        # a continuation block created for a patch: it stands at the end of
        # the original block whose labels (or whose patch's labels) it holds
        names = {x.name for x in block.references}
        for si, ii, t in lst.all_tokens():
            if t.t == "L" and t.name in names:
                bid = t.bid if t.bid is not None else (
                    t.site[0] if t.site else None)
                if bid is not None:
                    break
    if bid is None:
        # a nameless remainder: only its place tells what it was
        return return_site_of_call_into_returnless_function(
            case, r, block, lst, set())
    blk = rwbase.find_block(case, bid)
    names = set(blk["labels"]) | {x.name for x in block.references}
    # (b) the data that followed the block was deleted in the same rewrite
    nxt = None
    for s in case["secs"]:
        seq = [b for iv in s["ivs"] for b in iv["blocks"]]
        for k, b in enumerate(seq):
            if b["id"] == bid and k + 1 < len(seq):
                nxt = seq[k + 1]
    if nxt is not None and not nxt["code"] and (
            nxt["id"] in lst.deleted_blocks or
            nxt["id"] in lst.proxy_deleted):
        return ":reason-removed-by-another-edit"
    # (a) the input had non-fallthrough edges into the block (or into the
    # wholly deleted blocks in front of it, whose edges slid onto it) and
    # none of their source instructions survives
    from .. import irbuild
    from ..listing import Listing
    l0 = Listing(case)
    l0.layout()
    edges0, _, instr0 = irbuild.expected_edges(l0, l0.label_positions())
    chain = {bid}
    for s in case["secs"]:
        seq = [b for iv in s["ivs"] for b in iv["blocks"]]
        for k, b in enumerate(seq):
            if b["id"] == bid:
                j = k - 1
                while j >= 0 and seq[j]["id"] in lst.deleted_blocks and \
                        seq[j]["id"] not in lst.proxy_deleted:
                    chain.add(seq[j]["id"])
                    j -= 1
    start_pos = {}
    for si, ii, t in l0.all_tokens():
        if t.t == "B":
            start_pos[(si, t.pos)] = start_pos.get((si, t.pos), set()) | {
                t.bid}
    alive = {t.uid for _, _, t in lst.all_tokens() if t.t == "I"}
    had = False
    for (si, pos, et, c, d, tgt) in edges0:
        if et == "ft" or tgt[0] != "pos":
            continue
        if not (start_pos.get((tgt[1], tgt[2]), set()) & chain):
            continue
        had = True
        src = instr0.get((si, pos))
        if src is not None and src.uid in alive:
            return ""
    if had:
        return ":reason-removed-by-another-edit"
    return return_site_of_call_into_returnless_function(
        case, r, block, lst, names)


def return_site_of_call_into_returnless_function(case, r, block, lst, names):
    # (c) the block was the return site of a call (return edges are incoming
    # control flow) whose callee lost its last return later in the rewrite
    from .. import irbuild, irview
    try:
        lst.layout()
        labels = lst.label_positions()
        edges, _, instr_at = irbuild.expected_edges(lst, labels)
        here = {labels[n][1:] for n in names
                if n in labels and labels[n][0] == "pos"}
        p_ = irview.observe(r.bu, case["isa"]).blockpos(block)
        if p_ is not None:
            here.add(tuple(p_))
        rets = {t.fn for t in instr_at.values() if t.kind == "ret"}
        for (si, t, site, tgt) in irbuild.expected_edges.calls:
            if tgt[0] != "pos":
                continue
            callee = instr_at.get((tgt[1], tgt[2]))
            end = (si, t.pos + t.size)
            if end in here and callee is not None and \
                    callee.fn is not None and callee.fn not in rets:
                return ":reason-removed-by-another-edit"
    except Exception:  # noqa
        pass
    return ""


def two_function_blocks(case):
    seen, out = set(), set()
    for f in case.get("funcs", []):
        for b in set(f["blocks"]):
            (out if b in seen else seen).add(b)
    return out


def shared_context(case, bu, items):
    """(F64) the library files every block under ONE function; when a block
    that two functions list is removed (deleted, or joined into the block in
    front of it) only that one function's sets forget it.  The key carries
    this context when the stale node is such a block and the table is one of
    the two function tables; the round trip then differs in those tables."""
    shared = {id(bu.blocks[b]) for b in two_function_blocks(case)
              if b in bu.blocks}
    out = []
    stale = False
    for item in items:
        k = item[0]
        if k in ("irsan:aux-node-detached:functionBlocks",
                 "irsan:aux-node-detached:functionEntries") and \
                len(item) > 2 and id(item[2]) in shared:
            stale = True
            out.append(("irsan:function-table-keeps-a-removed-block-of-two-"
                        "functions", item[1]))
        else:
            out.append(item)
    if stale:
        out = [("irsan:protobuf-roundtrip-differs:function-table-keeps-a-"
                "removed-block-of-two-functions", it[1])
               if it[0] == "irsan:protobuf-roundtrip-differs" and all(
                   "/aux/function" in p_ for p_ in it[1].split("', '"))
               else it for it in out]
    return out


def bystander(r, viol, ctr, where):
    """the module of the same IR that the rewrite is not about: unchanged
    in every facet and still closed, whether apply() returned or raised"""
    ch = rewrite.bystander_changes(r)
    if ch is None:
        return
    ctr["bystander_modules_compared"] = ctr.get(
        "bystander_modules_compared", 0) + 1
    for f in ch:
        viol.append({"key": "bystander-module-changed:" + (
            "aux-table" if f.startswith("aux:") else f) + where,
            "msg": f"facet {f} of the module the rewrite was not about "
                   "differs from before the rewrite"})
    for item in irsan.sanitize(r.bu.bystander, None, roundtrip=False,
                               failure_path=True):
        viol.append({"key": item[0] + ":bystander-module" + where,
                     "msg": item[1]})


def run_case(case):
    from gtirb_rewriting import rewriting as rw
    viol = []
    ctr = {"sanitizer_passes": 0, "fault_runs": 0, "hook_events": 0,
           "failure_states_checked": 0, "sanitizer_checks": 0}
    if rw._verif is None:
        return {"sig": None, "violations": [],
                "inconclusive": "hook-disabled"}
    state = {}

    def before(r):
        if case.get("align_seed") is not None:
            from . import c10
            ctr["aligned_input_blocks"] = c10.apply_auto_align(case, r.bu)
        for ck, tname in DYN_TABLES:
            if case.get(ck) is not None:
                r.bu.module.aux_data[tname] = gtirb.AuxData(
                    r.bu.blocks[case[ck]], "UUID")
        for k, bid in enumerate(case.get("typed_data") or ()):
            for tname, val in (("types", f"t{k}"), ("encodings", "string")):
                t = r.bu.module.aux_data.get(tname)
                if t is None:
                    t = r.bu.module.aux_data[tname] = gtirb.AuxData(
                        {}, "mapping<UUID,string>")
                t.data[r.bu.blocks[bid]] = val
            ctr["typed_input_data_blocks"] = ctr.get(
                "typed_input_data_blocks", 0) + 1
        state["snap"] = irsan.Snapshot(r.bu.module)
        # (under PassManager this runs inside the manager's return-cache
        # context, where ir.cfg already is the cache: the caller's object is
        # the one recorded before the run)
        state["snap"].cfg = r.orig_cfg
        state["edges"] = None

    def listener(event, **kw):
        ctr["hook_events"] += 1
        if event in ("before_patch", "apply_begin"):
            state["edges"] = set(kw["cache"].return_cache)

    rw._verif.register(listener)
    try:
        r = rewrite.run(case, before_apply=before)
        n = r.rec.callbacks
        bystander(r, viol, ctr, "")
        if r.exception is not None:
            kind, key = oracles.classify_apply_exception(case, r.exception)
            left = shared_context(case, r.bu, irsan.sanitize(
                r.bu.module, state["snap"], failure_path=True))
            if kind == "raised":
                msg = "".join(traceback.format_exception(
                    type(r.exception), r.exception,
                    r.exception.__traceback__))[-2000:]
                if key.startswith("apply-raises:AssertionError@edges.py:") \
                        and msg.rstrip().endswith(
                            "block.ir\nAssertionError") and any(
                        it[0] == "irsan:function-table-keeps-a-removed-"
                                 "block-of-two-functions" for it in left):
                    # (F64) return-edge bookkeeping walks the blocks of a
                    # function and meets the removed block its table still
                    # lists: `assert block.ir`
                    key += (":function-table-keeps-a-removed-block-of-two-"
                            "functions")
                viol.append({"key": key, "msg": msg})
            else:
                ctr["precondition_refusals"] = 1
            # whatever was left behind must still be closed
            for item in left:
                viol.append({"key": item[0] + ":after-apply-raised",
                             "msg": item[1]})
            return {"sig": None, "violations": viol, "counters": ctr}
        order = {id(bi): i for i, bi in enumerate(
            bi for row in r.bu.intervals for bi in row)}
        for item in shared_context(case, r.bu, irsan.sanitize(
                r.bu.module, state["snap"], interval_order=order)):
            k, m = item[0], item[1]
            if k == "irsan:undocumented-zero-sized-block":
                k += zero_block_context(case, r, item[2])
            viol.append({"key": k, "msg": m})
        ctr["sanitizer_passes"] += 1
        check_dyn_tables(case, r, viol, ctr)
        # fault enumeration
        kinds = ["raise"]
        for k in range(1, min(n, MAXK) + 1):
            for fk in (kinds if k % 3 else ["raise", "syntax"]):
                state["edges"] = None
                fr = rewrite.run(case, fault_at=k, fault_kind=fk,
                                 before_apply=before)
                ctr["fault_runs"] += 1
                if fr.exception is None:
                    viol.append({"key": "fault:swallowed",
                                 "msg": f"callback {k} ({fk}) raised but "
                                        f"apply() returned"})
                    continue
                if fk == "raise" and not isinstance(
                        fr.exception, rewrite.InjectedFault):
                    viol.append({
                        "key": "fault:other-exception:" + type(
                            fr.exception).__name__,
                        "msg": repr(fr.exception)[:300]})
                m = fr.bu.module
                ctr["failure_states_checked"] += 1
                bystander(fr, viol, ctr, ":after-fault")
                for item in shared_context(case, fr.bu, irsan.sanitize(
                        m, state["snap"], failure_path=True)):
                    viol.append({"key": item[0] + ":after-fault",
                                 "msg": f"k={k} {fk}: {item[1]}"})
                if state["edges"] is not None:
                    now = set(m.ir.cfg)
                    if now != state["edges"]:
                        lost = state["edges"] - now
                        extra = now - state["edges"]
                        viol.append({
                            "key": "fault:cfg-differs-from-cache:" + (
                                "lost" if lost else "extra"),
                            "msg": f"k={k}: lost {len(lost)} extra "
                                   f"{len(extra)} edges"})
        sig = rwbase.shape_signature(case) + f"|faults={min(n, MAXK)}"
        return {"sig": sig if case["edits"] else None, "violations": viol,
                "counters": ctr}
    finally:
        rw._verif.unregister(listener)
