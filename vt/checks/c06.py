"""C06: function tables keep describing the same code."""
from .. import gen_rewrite, oracles, vocab
from . import rwbase

PROP = "C06"
LEVEL = "exploration"
TECHNIQUE = "reference-model monitor: per-instruction function attribution of the edited listing vs functionBlocks/Entries/Names mapped to instruction positions"
RULE = (
    "same seeded rewrite scenarios as C01 (30% with 1-2 whole functions of "
    "1-4 blocks added through register_insert_function: named once, symbol "
    "block the only entry, blocks exactly the body) with 0-4 functions (adjacent, "
    "multi-entry, interleaved with function-less code and data), edits at "
    "function boundaries, entry-block deletion, whole-function deletion; "
    "after apply(): every decoded instruction's function (functionBlocks -> "
    "functionNames) vs the listing's attribution (patch code inherits the "
    "function of the block it was inserted into), structural table checks "
    "(no data, no block in two functions, entries subset of blocks, detached "
    "blocks, functions without code), and expected entry positions incl. "
    "promotion of the next block of the same function. non-trivial = apply() "
    "returned with >=1 edit and >=1 attribution compared."
    " Second module in the IR as in C01: its function tables must be unchanged."
)
ASSUMPTIONS = [
    "a function whose only remaining block is a documented retained zero-sized block may stay in the tables",
]
BUDGET = {"quick": (6000, 40), "thorough": (250000, 540)}
RULE += (
    " Inserted functions are called by patches and by each other (by name"
    " or by an alias label) and their return edges are compared with the"
    " call sites; 12% of the scenarios with functions run without the"
    " functionBlocks table (caller-provided Function objects; entries and"
    " names are judged), half of the function-less modules have no"
    " function tables at all."
)
REQUIRED_COUNTERS = ["applies", "instruction_attributions_compared",
                     "entries_compared", "inserted_functions_compared"]

def gen_case(rng, tier, index):
    case = gen_rewrite.generate(rng, tier, entry_chain_p=0.08,
                                 entry_kept_p=0.15)
    if not case["funcs"] and rng.random() < 0.5:
        # no function information at all: the three tables are absent
        case["no_function_tables"] = True
    if rng.random() < 0.3:
        case["newfuncs"] = [new_function(rng, case, k)
                            for k in range(rng.choice([1, 1, 2]))]
        # ... which the rewrite's own patches (or the other new function)
        # may call
        ps = [e["p"] for e in case["edits"]
              if e.get("op") in ("ins", "rep") and "lines" in e.get("p", {})
              and rwbase.find_block(case, e["b"])["code"]]
        if ps and rng.random() < 0.5:
            p = rng.choice(ps)
            cut = next((k for k, ln in enumerate(p["lines"]) if "sec" in ln),
                       len(p["lines"]))
            p["lines"].insert(min(1, cut), {"k": "call", "t": "newfn0"})
        if len(case["newfuncs"]) == 2 and rng.random() < 0.5:
            # (by its name, or by a second label standing at its start)
            tgt = "newfn0"
            if rng.random() < 0.5:
                tgt = "nf0_alias"
                case["newfuncs"][0]["p"]["lines"].insert(0, {"l": tgt})
            case["newfuncs"][1]["p"]["lines"].insert(
                1, {"k": "call", "t": tgt})
    elif case["funcs"] and rng.random() < 0.12:
        # the optional functionBlocks table is missing: the caller hands its
        # own Function objects over, functionEntries / functionNames exist
        case["no_function_blocks_table"] = True
        case.pop("driver", None)
    return case


def new_function(rng, case, k):
    """a function body of 1-4 blocks: marker, optional internal branches to
    own labels, optional call of an existing function, return"""
    isa = case["isa"]
    lines = [{"k": "mark", "imm": (0x7000 + k) if isa in ("arm64", "mips32")
              else gen_rewrite.MARK_BASE + 0x8000 + k}]
    nlab = rng.choice([0, 0, 1, 2])
    for j in range(nlab):
        lines.append({"k": "jne", "t": f"nf{k}_l{j}"})
        lines.append({"k": rng.choice(gen_rewrite.ORD_KEYS)})
    fnames = [f["name"] for f in case["funcs"]]
    if fnames and rng.random() < 0.3:
        lines.append({"k": "call", "t": rng.choice(fnames)})
    for j in range(nlab):
        lines.append({"l": f"nf{k}_l{j}"})
        lines.append({"k": rng.choice(gen_rewrite.ORD_KEYS)})
    if rng.random() < 0.3:
        # a label that nothing jumps to (reached by falling through)
        lines.append({"l": f"nf{k}_m"})
        lines.append({"k": rng.choice(gen_rewrite.ORD_KEYS)})
    lines.append({"k": "ret"})
    return {"name": f"newfn{k}", "p": {"lines": lines}}


def check_new_functions(a):
    """a function inserted with register_insert_function appears in all three
    tables with its symbol as name and (only) entry; its blocks are exactly
    the code the body assembled to.  The inserted functions are then taken
    out of the tables so that the listing oracle sees the original module."""
    import gtirb
    viol, n, n_ret = [], 0, 0
    bu, case = a.run.bu, a.case
    m = bu.module
    isa = case["isa"]
    fb = m.aux_data["functionBlocks"].data if "functionBlocks" in \
        m.aux_data else {}
    fe = m.aux_data["functionEntries"].data if "functionEntries" in \
        m.aux_data else {}
    fnm = m.aux_data["functionNames"].data if "functionNames" in \
        m.aux_data else {}
    known_iv = {id(bi) for row in bu.intervals for bi in row}
    for nf in case.get("newfuncs", []):
        n += 1
        sym = bu.new_functions[nf["name"]]
        uus = [u for u, s in fnm.items() if s is sym]
        if len(uus) != 1:
            viol.append({"key": "fn:inserted-function-not-named-once",
                         "msg": f"{nf['name']}: {len(uus)}"})
            continue
        u = uus[0]
        entry = sym.referent
        if not isinstance(entry, gtirb.CodeBlock) or entry.module is not m:
            viol.append({"key": "fn:inserted-function-symbol-detached",
                         "msg": nf["name"]})
            continue
        if set(fe.get(u, ())) != {entry}:
            viol.append({
                "key": "fn:inserted-function-entries-differ",
                "msg": f"{nf['name']}: {len(fe.get(u, ()))} entries, "
                       f"symbol block among them: {entry in fe.get(u, ())}"})
        # the code of the body: the code blocks of the interval holding the
        # entry, which must spell the expected bytes
        bi = entry.byte_interval
        want = b"".join(
            vocab.encode(isa, ln["k"], ln.get("imm")) for ln in
            nf["p"]["lines"] if "k" in ln)
        got = bytes(bi.contents[:bi.size]) if bi is not None else b""
        body_blocks = {b for b in bi.blocks} if bi is not None else set()
        # branch displacements are resolved by the assembler: compare sizes
        # and the marker only
        if len(got) != len(want) or got[:5 if isa != "arm64" else 4] != \
                want[:5 if isa != "arm64" else 4] or id(bi) in known_iv:
            viol.append({"key": "fn:inserted-function-body-differs",
                         "msg": f"{got.hex()} vs {want.hex()}"})
        if set(fb.get(u, ())) != body_blocks or not all(
                isinstance(b, gtirb.CodeBlock) for b in body_blocks):
            viol.append({
                "key": "fn:inserted-function-blocks-differ",
                "msg": f"{nf['name']}: table {len(fb.get(u, ()))} "
                       f"body {len(body_blocks)}"})
        for u2, blocks in fb.items():
            if u2 != u and body_blocks & set(blocks):
                viol.append({"key": "fn:inserted-function-block-in-other-"
                                    "function", "msg": nf["name"]})
        # its returns lead to the return sites of the calls that enter it
        ET = gtirb.Edge.Type
        sites = set()
        for e in entry.incoming_edges:
            if e.label.type == ET.Call:
                sites |= {id(x.target) for x in e.source.outgoing_edges
                          if x.label.type == ET.Fallthrough}
        for b in body_blocks:
            rets = [x for x in b.outgoing_edges if x.label.type == ET.Return]
            if rets and sites:
                n_ret = n_ret + 1
                got_sites = {id(x.target) for x in rets}
                if not sites <= got_sites:
                    viol.append({
                        "key": "fn:inserted-function-return-edges-miss-a-"
                               "call-site",
                        "msg": f"{nf['name']}: {len(sites - got_sites)} of "
                               f"{len(sites)} sites missing"})
        if fe.get(u) is fb.get(u) and u in fe:
            viol.append({"key": "fn:inserted-function-tables-share-a-set",
                         "msg": nf["name"]})
        for t in (fb, fe, fnm):
            t.pop(u, None)
    return viol, {"inserted_functions_compared": n,
                  "inserted_function_returns_compared": n_ret}


def run_without_blocks_table(case):
    from .. import irview, rewrite
    viol = []
    ctr = {"applies_without_functionBlocks_table": 0, "entries_compared": 0,
           "functions_compared": 0}

    def before(r):
        r.bu.module.aux_data.pop("functionBlocks", None)
    run = rewrite.run(case, before_apply=before)
    if run.exception is not None:
        kind, key = oracles.classify_apply_exception(case, run.exception)
        if kind != "refused":
            viol.append({"key": key, "msg": repr(run.exception)[:300]})
        return {"sig": None, "violations": viol, "counters": ctr}
    ctr["applies_without_functionBlocks_table"] = 1
    lst = rewrite.expected(case)
    lst.layout()
    ob = irview.observe(run.bu, case["isa"])
    m = run.bu.module
    fe = m.aux_data["functionEntries"].data
    fnm = m.aux_data["functionNames"].data
    name_of = {u: getattr(s, "name", None) for u, s in fnm.items()}
    alive = {}
    for si, ii, t in lst.all_tokens():
        if t.t == "I" and t.fn is not None:
            alive[t.fn] = alive.get(t.fn, 0) + 1
    exp_entries = oracles.expected_entries(case, lst)
    for f in case["funcs"]:
        nme = f["name"]
        ctr["functions_compared"] += 1
        us = [u for u in fe if name_of.get(u) == nme]
        # (a function left without any entry has no trace in these two
        # tables: whether its code survives is then only known to the caller)
        if alive.get(nme) and not us and exp_entries.get(nme):
            viol.append({"key": "fn:function-with-code-vanished:"
                                "without-functionBlocks-table", "msg": nme})
            continue
        if not us:
            continue
        exp = sorted(exp_entries.get(nme, []))
        opt = oracles.expected_entries.optional.get(nme, set()) - set(exp)
        got = sorted({p for p, b in ((ob.blockpos(b), b) for b in fe[us[0]])
                      if p is not None and (b.size or p in exp)
                      and p not in opt})
        ctr["entries_compared"] += 1
        if got != exp:
            viol.append({"key": "fn:entries-differ:without-functionBlocks-"
                                "table", "msg": f"{nme}: {got} != {exp}"})
    sig = rwbase.shape_signature(case) + "|nofb" if case["edits"] else None
    return {"sig": sig, "violations": viol, "counters": ctr}


def run_case(case):
    if case.get("no_function_blocks_table"):
        return run_without_blocks_table(case)
    a = rwbase.analyze(case)
    if a.skip is None:
        if case.get("newfuncs"):
            v, c = check_new_functions(a)
            a.viol += v
            a.ctr.update(c)
        v, c = oracles.check_functions(a.run, a.lst, a.ob)
        a.viol += v
        a.ctr.update(c)
    rwbase.bystander(a, PROP)
    return rwbase.result(a)
