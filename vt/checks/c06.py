"""C06: function tables keep describing the same code."""
from .. import oracles
from . import rwbase

PROP = "C06"
LEVEL = "exploration"
TECHNIQUE = "reference-model monitor: per-instruction function attribution of the edited listing vs functionBlocks/Entries/Names mapped to instruction positions"
RULE = (
    "same seeded rewrite scenarios as C01 with 0-4 functions (adjacent, "
    "multi-entry, interleaved with function-less code and data), edits at "
    "function boundaries, entry-block deletion, whole-function deletion; "
    "after apply(): every decoded instruction's function (functionBlocks -> "
    "functionNames) vs the listing's attribution (patch code inherits the "
    "function of the block it was inserted into), structural table checks "
    "(no data, no block in two functions, entries subset of blocks, detached "
    "blocks, functions without code), and expected entry positions incl. "
    "promotion of the next block of the same function. non-trivial = apply() "
    "returned with >=1 edit and >=1 attribution compared."
)
ASSUMPTIONS = [
    "a function whose only remaining block is a documented retained zero-sized block may stay in the tables",
]
BUDGET = {"quick": (6000, 40), "thorough": (250000, 540)}
REQUIRED_COUNTERS = ["applies", "instruction_attributions_compared",
                     "entries_compared"]

gen_case = rwbase.gen_case


def run_case(case):
    a = rwbase.analyze(case)
    if a.skip is None:
        v, c = oracles.check_functions(a.run, a.lst, a.ob)
        a.viol += v
        a.ctr.update(c)
    return rwbase.result(a)
