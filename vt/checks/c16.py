"""C16: patch prologue/epilogue make the patch transparent."""
import itertools
import random

import gtirb

from .. import emu

PROP = "C16"
LEVEL = "exploration"
TECHNIQUE = "shadow-memory interpreter: the real register allocation and prologue/epilogue snippets are assembled by the real assembler, decoded by capstone and executed concretely around a havoc body; stack writes are shadowed (who wrote which byte, red zone, above original SP, read-before-write)"
RULE = (
    "for all five ABIs (x86-64 ELF/PE, IA32 PE, ARM64 ELF, MIPS32 ELF): "
    "every singleton and pair of clobbered registers x clobbers_flags x "
    "align_stack x leaf (exhaustive sub-space) and random larger subsets x "
    "preserve_caller_saved x scratch 0..max+1 x reads subsets (named by any of "
    "the register's sub-register names); each "
    "configuration is executed from random register files, a random flags "
    "value and initial stack pointers at every residue the ABI allows; the "
    "body overwrites every declared resource and the stack below it. Judged "
    "after the epilogue: all registers, flags (when declared) and SP equal "
    "their initial values; no write at/above SP0 or into the red zone of a "
    "possible leaf; only self-written slots read; scratch registers "
    "distinct/as many as requested/not read/not reserved; reported "
    "stack_adjustment equals the real displacement; aligned body stack with "
    "align_stack. non-trivial = prologue+epilogue executed; distinct = "
    "(abi, |clobbers|, flags, align, caller, scratch, reads, leaf)."
    " One case in eight goes through PassManager/RewritingContext on"
    " x86-64 ELF (leaf, syscall-only, calling, function-less code, a"
    " leaf that received a call in an earlier run of the same manager -"
    " also with a context in between that is given only the other"
    " functions -, code of no function right behind a function that calls;"
    " patch objects made by subclassing or Patch.from_function with"
    " decorator/explicit constraints): the inserted bytes are executed"
    " with the red zone armed and every register compared."
)
RULE += " The scratch list the patch receives is the list the allocator chose: building the prologue must not change it."
ASSUMPTIONS = [
    "flags clobbered by the prologue itself when the patch did not declare flags are only counted (outside the statement)",
    "reads_registers only names allocatable registers that are not also declared clobbered",
    "an instruction outside the interpreter's vocabulary makes the case inconclusive, never a violation",
]
BUDGET = {"quick": (6000, 45), "thorough": (200000, 500)}
REQUIRED_COUNTERS = ["configurations_executed", "instructions_executed",
                     "context_insertions",
                     "stack_writes_shadowed"]

ABIS = {
    "x64-elf": ("x64", gtirb.Module.ISA.X64, gtirb.Module.FileFormat.ELF),
    "x64-pe": ("x64", gtirb.Module.ISA.X64, gtirb.Module.FileFormat.PE),
    "ia32-pe": ("ia32", gtirb.Module.ISA.IA32, gtirb.Module.FileFormat.PE),
    "arm64-elf": ("arm64", gtirb.Module.ISA.ARM64,
                  gtirb.Module.FileFormat.ELF),
    "mips32-elf": ("mips32", gtirb.Module.ISA.MIPS32,
                   gtirb.Module.FileFormat.ELF),
}
X64_REGS = ["rax", "rbx", "rcx", "rdx", "rsi", "rdi"] + [
    f"r{i}" for i in range(8, 16)]
IA32_REGS = ["eax", "ebx", "ecx", "edx", "esi", "edi"]
ARM_REGS = [f"x{i}" for i in range(31)]
ARM_RESERVED = {"x16", "x17", "x18", "x29", "x30"}
MIPS_ALL = [f"t{i}" for i in range(10)] + [f"a{i}" for i in range(4)] + [
    f"s{i}" for i in range(8)] + ["v0", "v1", "k0", "k1", "at", "gp", "fp",
                                  "ra"]
MIPS_POOL = [f"t{i}" for i in range(8)]
POOL = {"x64-elf": X64_REGS, "x64-pe": X64_REGS, "ia32-pe": IA32_REGS,
        "arm64-elf": [r for r in ARM_REGS if r not in ARM_RESERVED],
        "mips32-elf": MIPS_POOL}
ALLREGS = {"x64-elf": X64_REGS, "x64-pe": X64_REGS, "ia32-pe": IA32_REGS,
           "arm64-elf": ARM_REGS, "mips32-elf": MIPS_ALL}
CALLER = {
    "x64-elf": ["rax", "rcx", "rdx", "rsi", "rdi", "r8", "r9", "r10", "r11"],
    "x64-pe": ["rax", "rcx", "rdx", "r8", "r9", "r10", "r11"],
    "ia32-pe": ["eax", "ecx", "edx"],
    "arm64-elf": [f"x{i}" for i in range(16)] + ["x29", "x30"],
    "mips32-elf": [f"t{i}" for i in range(10)] + [f"a{i}" for i in
                                                  range(4)] + ["v0", "v1"],
}
RED = {"x64-elf": 128}
ALIGN = {"x64-elf": 16, "x64-pe": 16, "ia32-pe": 4, "arm64-elf": 16,
         "mips32-elf": 8}


def canon(abi, name):
    """register name -> interpreter name"""
    if abi == "ia32-pe":
        return "r" + name[1:]
    return name


CTX_SHAPES = ["plain-leaf", "syscall-only", "calls", "no-function",
              "calls-in-other-block", "leaf-gets-a-call-in-an-earlier-run",
              "no-function-behind-a-calling-function",
              "leaf-gets-a-call-then-a-context-without-it",
              "leaf-gets-a-call-from-a-context-that-saw-only-it",
              "same-patch-object-in-a-calling-function-first",
              "first-context-without-the-leaf:no-functions",
              "first-context-without-the-leaf:other-functions",
              "block-shared-by-a-leaf-and-a-calling-function:leaf-first",
              "block-shared-by-a-leaf-and-a-calling-function:leaf-last"]


def gen_case(rng, tier, index):
    if index % 8 == 7:
        # through RewritingContext: is the enclosing function possibly a
        # leaf?  (x86-64 ELF, the ABI with a red zone)
        return {"kind": "ctx", "shape": rng.choice(CTX_SHAPES),
                "clobbers": rng.sample(["rax", "rcx", "rdx", "rsi", "r8"],
                                       rng.randrange(0, 3)),
                "flags": rng.random() < 0.5, "align": rng.random() < 0.4,
                "scratch": rng.choice([0, 0, 1]),
                # how the patch object is made: subclass, from_function with
                # explicit constraints (which win over a decorator's), or
                # from_function relying on the decorator
                "make": rng.choice(["subclass", "explicit-over-decorator",
                                    "decorator"]),
                "seed": rng.randrange(1 << 30),
                # the patch text ends in another section (data of its own)
                # and does not come back to .text
                "data_tail": random.Random(f"dt:{index}").random() < 0.3}
    abi = rng.choice(list(ABIS))
    pool = POOL[abi]
    allr = ALLREGS[abi]
    k = rng.choice([0, 1, 2, 3, 4, len(allr) // 2, len(allr)])
    clob = rng.sample(allr, min(k, len(allr)))
    if abi == "mips32-elf":
        clob = [r for r in clob if r not in ("zero", "sp")]
    free = [r for r in pool if r not in clob]
    reads = rng.sample(free, min(len(free), rng.choice([0, 0, 1, 2])))
    avail = len(free) - len(reads)
    scratch = rng.choice([0, 0, 1, 2, 3, avail, avail + 1])
    return {"abi": abi, "clobbers": clob, "flags": rng.random() < 0.5,
            "align": rng.random() < 0.4, "caller": rng.random() < 0.3,
            "scratch": max(0, scratch), "reads": reads,
            "leaf": rng.random() < 0.5, "seed": rng.randrange(1 << 30),
            "upper": rng.random() < 0.3,
            "read_alias": rng.random() < 0.4}


def exhaustive(tier):
    for abi in ABIS:
        allr = ALLREGS[abi]
        subsets = [()] + [(r,) for r in allr]
        if tier == "thorough" or len(allr) <= 14:
            subsets += list(itertools.combinations(allr, 2))
        for sub in subsets:
            for flags, align, leaf in itertools.product(
                    (False, True), repeat=3):
                if abi == "mips32-elf" and align and sub:
                    continue
                yield {"abi": abi, "clobbers": list(sub), "flags": flags,
                       "align": align, "caller": False, "scratch": 0,
                       "reads": [], "leaf": leaf,
                       "seed": hash((abi, sub)) & 0xFFFFFF, "upper": False}


class Desc:
    def __init__(self, isa, fmt):
        self.isa, self.file_format = isa, fmt


def assemble(isa_g, fmt, snippets):
    from gtirb_test_helpers import create_test_module
    from gtirb_rewriting.assembler import Assembler
    ir, m = create_test_module(
        fmt, isa_g, byte_order=gtirb.Module.ByteOrder.Big
        if isa_g == gtirb.Module.ISA.MIPS32 else None)
    a = Assembler(m)
    n = 0
    for s in snippets:
        a.assemble(s.code, s.x86_syntax)
        n += 1
    if not n:
        return b""
    return bytes(a.finalize().text_section.data)


def run_ctx(c):
    """the red-zone decision as RewritingContext makes it"""
    import gtirb_functions
    from gtirb_rewriting import Constraints, Patch, RewritingContext
    from .. import irbuild, vocab
    viol = []
    ctr = {"context_insertions": 0, "instructions_executed": 0}
    shape = c["shape"]

    def blk(i, labels, items):
        return {"id": i, "code": True, "labels": labels, "elabels": [],
                "items": items}
    blocks = {
        "plain-leaf": [blk(0, ["f"], [{"k": "nop"}, {"k": "ret"}])],
        "syscall-only": [blk(0, ["f"], [{"k": "nop"}, {"k": "syscall"}]),
                         blk(1, ["f1"], [{"k": "ret"}])],
        "calls": [blk(0, ["f"], [{"k": "nop"}, {"k": "call", "t": "g"}]),
                  blk(1, ["f1"], [{"k": "ret"}])],
        "calls-in-other-block": [
            blk(0, ["f"], [{"k": "nop"}, {"k": "jne", "t": "f1"}]),
            blk(1, ["f2"], [{"k": "call", "t": "g"}]),
            blk(3, ["f1"], [{"k": "ret"}])],
        "no-function": [blk(0, ["f"], [{"k": "nop"}, {"k": "ret"}])],
        "leaf-gets-a-call-in-an-earlier-run": [
            blk(0, ["f"], [{"k": "nop"}, {"k": "ret"}])],
        "leaf-gets-a-call-then-a-context-without-it": [
            blk(0, ["f"], [{"k": "nop"}, {"k": "ret"}])],
        "leaf-gets-a-call-from-a-context-that-saw-only-it": [
            blk(0, ["f"], [{"k": "nop"}, {"k": "ret"}])],
        # one Patch object, inserted into a function that calls (lower
        # address, visited first) and into a leaf
        "same-patch-object-in-a-calling-function-first": [
            blk(5, ["h"], [{"k": "nop"}, {"k": "call", "t": "g"}]),
            blk(6, ["h1"], [{"k": "ret"}]),
            blk(0, ["f"], [{"k": "nop"}, {"k": "ret"}])],
        # code that belongs to no function, right behind a function that
        # calls
        "no-function-behind-a-calling-function": [
            blk(5, ["h"], [{"k": "nop"}, {"k": "call", "t": "g"}]),
            blk(6, ["h1"], [{"k": "ret"}]),
            blk(0, ["f"], [{"k": "nop"}, {"k": "ret"}])],
    }.get(shape)
    if shape.startswith("first-context-without-the-leaf"):
        blocks = [blk(0, ["f"], [{"k": "nop"}, {"k": "ret"}])]
    if shape.startswith("block-shared-by-a-leaf-and-a-calling-function"):
        # the tail `nop; ret` belongs to f (nothing else: a leaf) and to h,
        # which calls g and falls into it: whoever gets there through f has
        # a live red zone
        blocks = [blk(5, ["h"], [{"k": "nop"}, {"k": "call", "t": "g"}]),
                  blk(6, ["h1"], [{"k": "nop"}]),
                  blk(0, ["f"], [{"k": "nop"}, {"k": "ret"}])]
    blocks = blocks + [blk(9, ["g"], [{"k": "ret"}])]
    fblocks = [b["id"] for b in blocks if b["id"] not in (9, 5, 6)]
    funcs = [{"name": "g", "blocks": [9], "entries": [9]}]
    if shape == "no-function-behind-a-calling-function":
        funcs.append({"name": "h", "blocks": [5, 6], "entries": [5]})
    elif shape == "same-patch-object-in-a-calling-function-first":
        funcs.append({"name": "h", "blocks": [5, 6], "entries": [5]})
        funcs.append({"name": "f", "blocks": fblocks, "entries": [0]})
    elif shape.startswith("block-shared-by-a-leaf-and-a-calling-function"):
        hf = {"name": "h", "blocks": [5, 6, 0], "entries": [5]}
        ff = {"name": "f", "blocks": [0], "entries": [0]}
        funcs += [ff, hf] if shape.endswith("leaf-first") else [hf, ff]
    elif shape != "no-function":
        funcs.append({"name": "f", "blocks": fblocks, "entries": [0]})
    case = {"isa": "x64", "fmt": "elf", "pie": False, "externs": [],
            "entry": None, "edits": [], "funcs": funcs,
            "secs": [{"name": ".text", "exec": True,
                      "ivs": [{"gap": 0, "blocks": blocks}]}]}
    bu, lst = irbuild.build(case, random.Random("uuid:0"))
    m = bu.module
    from gtirb_rewriting import Pass, PassManager
    from gtirb_rewriting.patch import patch_constraints
    # the body overwrites every register it declared clobbered
    body = "nop\n" + "".join(f"movq $1, %{r}\n" for r in c["clobbers"])
    if c.get("data_tail"):
        body += ".data\n.Lverif_d:\n.quad 7\n"
        ctr["patches_ending_in_another_section"] = 1
    cons = dict(clobbers_flags=c["flags"],
                clobbers_registers=set(c["clobbers"]),
                scratch_registers=c["scratch"], align_stack=c["align"])
    make = c.get("make", "subclass")
    if make == "subclass":
        class P(Patch):
            def __init__(self):
                super().__init__(Constraints(**cons))

            def get_asm(self, ctx):
                return body
        patch = P()
    elif make == "decorator":
        @patch_constraints(**cons)
        def fn(ctx):
            return body
        patch = Patch.from_function(fn)
    else:
        # the decorator says something else; the explicit argument counts
        @patch_constraints(clobbers_registers={"rbx"})
        def fn(ctx):
            return body
        patch = Patch.from_function(fn, Constraints(**cons))

    class Reg(Pass):
        def __init__(self, what):
            self.what = what

        def begin_module(self, module, functions, ctx):
            if self.what == "call":
                ctx.insert_at(bu.blocks[0], 1, Patch.from_function(
                    lambda _ctx: "callq g\n", Constraints()))
            else:
                if shape == "same-patch-object-in-a-calling-function-first":
                    ctx.insert_at(bu.blocks[5], 0, patch)
                ctx.insert_at(bu.blocks[0], 0, patch)
    if shape == "leaf-gets-a-call-from-a-context-that-saw-only-it":
        # the first context is given f alone (a leaf then, and recorded as
        # one) and puts a call into it; the second is given every function,
        # g among them, which the record has never seen
        only = [f for f in gtirb_functions.Function.build_functions(m)
                if bu.blocks[0] in f.get_all_blocks()]
        ctx = RewritingContext(m, only)
        ctx.insert_at(bu.blocks[0], 1, Patch.from_function(
            lambda _ctx: "callq g\n", Constraints()))
        ctx.apply()
        pm = PassManager()
        pm.add(Reg("patch"))
    elif shape.startswith("first-context-without-the-leaf"):
        # an earlier context that was given no function at all (or only
        # the others) leaves its bookkeeping behind; the leaf it never saw
        # is still a leaf for the context that patches it
        some = [] if shape.endswith("no-functions") else [
            f for f in gtirb_functions.Function.build_functions(m)
            if bu.blocks[0] not in f.get_all_blocks()]
        ctx = RewritingContext(m, some)
        ctx.get_or_insert_extern_symbol("puts", "libc.so.6")
        if some:
            ctx.insert_at(bu.blocks[9], 0, Patch.from_function(
                lambda _ctx: "nop\n", Constraints()))
        ctx.apply()
        pm = PassManager()
        pm.add(Reg("patch"))
    elif shape in ("leaf-gets-a-call-in-an-earlier-run",
                 "leaf-gets-a-call-then-a-context-without-it"):
        # first seen as a leaf: stays protected in later runs of the manager
        pm = PassManager()
        step = Reg("call")
        pm.add(step)
        pm.run(bu.ir)
        step.what = "patch"
        if shape == "leaf-gets-a-call-then-a-context-without-it":
            # ... also when a context in between is given only some of the
            # functions
            some = [f for f in gtirb_functions.Function.build_functions(m)
                    if bu.blocks[0] not in f.get_all_blocks()]
            ctx = RewritingContext(m, some)
            ctx.insert_at(bu.blocks[9], 0, Patch.from_function(
                lambda _ctx: "nop\n", Constraints()))
            ctx.apply()
    else:
        pm = PassManager()
        pm.add(Reg("patch"))
    before = len(bu.intervals[0][0].contents)
    off0 = bu.blocks[0].offset
    pm.run(bu.ir)
    bi = bu.intervals[0][0]
    ins = bytes(bi.contents)[off0:off0 + len(bi.contents) - before]
    if shape == "same-patch-object-in-a-calling-function-first":
        # two insertions: what stands in front of f's own two bytes
        b0 = bu.blocks[0]
        ins = bytes(bi.contents)[b0.offset:b0.offset + b0.size - 2]
    may_be_leaf = shape in ("plain-leaf", "syscall-only", "no-function",
                            "leaf-gets-a-call-from-a-context-that-saw-"
                            "only-it",
                            "same-patch-object-in-a-calling-function-first",
                            "leaf-gets-a-call-in-an-earlier-run",
                            "leaf-gets-a-call-then-a-context-without-it",
                            "no-function-behind-a-calling-function") or \
        shape.startswith("block-shared-by-a-leaf-and-a-calling-function") \
        or shape.startswith("first-context-without-the-leaf")
    rng = random.Random(c["seed"])
    names = [canon("x64-elf", r) for r in ALLREGS["x64-elf"]] + ["rbp"]
    for res in (0, 8):
        init = {n: rng.getrandbits(64) for n in names}
        sp0 = 0x7FFF0000 + res
        mc = emu.Machine("x64", init, sp0, rng.getrandbits(12),
                         red_zone=RED["x64-elf"], leaf=may_be_leaf)
        try:
            mc.phase = "prologue"
            mc.run(ins)
        except emu.Unsupported as e:
            return {"sig": None, "violations": viol, "counters": ctr,
                    "inconclusive": f"unsupported-instruction:{e}"[:200]}
        ctr["instructions_executed"] += mc.ninstr
        for key, msg in mc.problems:
            viol.append({"key": f"context:{key}:{shape}", "msg": msg})
        if mc.sp != sp0:
            viol.append({"key": "context:sp-not-restored",
                         "msg": f"{mc.sp - sp0:+d}"})
        for n in names:
            if mc.regs[n] != init[n]:
                viol.append({"key": f"context:register-not-restored:{make}",
                             "msg": n})
                break
    ctr["context_insertions"] = 1
    pushes = bool(c["clobbers"] or c["flags"] or c["align"] or c["scratch"])
    return {"sig": f"ctx:{shape}:{len(c['clobbers'])}{int(c['flags'])}"
                   f"{int(c['align'])}{c['scratch']}:{int(pushes)}",
            "violations": viol, "counters": ctr}


def run_case(c):
    if c.get("kind") == "ctx":
        return run_ctx(c)
    from gtirb_rewriting.abi import ABI
    from gtirb_rewriting.assembly import Constraints
    viol = []
    ctr = {"configurations_executed": 0, "instructions_executed": 0,
           "stack_writes_shadowed": 0, "expected_refusals": 0,
           "undeclared_flag_clobbers": 0}
    abi_name = c["abi"]
    isa, isa_g, fmt = ABIS[abi_name]
    abi = ABI.get(Desc(isa_g, fmt))
    clob = [r.upper() if c["upper"] else r for r in c["clobbers"]]
    reads_as = set(c["reads"])
    if c.get("read_alias"):
        # the patch may name a register it reads by any of its sub-register
        # names (eax, ax, al, w0, ...)
        arng = random.Random(c["seed"])
        reads_as = set()
        for r in c["reads"]:
            names = sorted(set(abi.get_register(r).sizes.values()))
            reads_as.add(arng.choice(names))
        ctr["reads_by_subregister_name"] = len(reads_as)
    cons = Constraints(
        clobbers_flags=c["flags"], clobbers_registers=set(clob),
        scratch_registers=c["scratch"], reads_registers=reads_as,
        align_stack=c["align"],
        preserve_caller_saved_registers=c["caller"])
    pool = POOL[abi_name]
    avail = len([r for r in pool if r not in c["clobbers"]]) - len(
        c["reads"])
    sig = (f"{abi_name}:{min(len(c['clobbers']), 4)}:{int(c['flags'])}"
           f"{int(c['align'])}{int(c['caller'])}{int(c['leaf'])}:"
           f"s{min(c['scratch'], 3)}{'+' if c['scratch'] > avail else ''}:"
           f"r{len(c['reads'])}")
    try:
        regs = abi._allocate_patch_registers(cons)
    except ValueError as e:
        if c["scratch"] > avail:
            ctr["expected_refusals"] += 1
            return {"sig": sig + ":refused", "violations": viol,
                    "counters": ctr}
        viol.append({"key": "alloc:unexpected-ValueError", "msg": str(e)})
        return {"sig": None, "violations": viol, "counters": ctr}
    if c["scratch"] > avail:
        viol.append({"key": "alloc:too-many-scratch-registers-accepted",
                     "msg": f"{c['scratch']} > {avail}"})
    scratch = [r.name for r in regs.scratch_registers]
    if len(scratch) != c["scratch"]:
        viol.append({"key": "alloc:scratch-count",
                     "msg": f"{len(scratch)} != {c['scratch']}"})
    if len(set(scratch)) != len(scratch):
        viol.append({"key": "alloc:scratch-not-distinct", "msg": str(scratch)})
    for r in scratch:
        if r in c["reads"]:
            viol.append({"key": "alloc:scratch-is-read-register", "msg": r})
        if r not in pool:
            viol.append({"key": "alloc:scratch-reserved-or-sp", "msg": r})
        if r in c["clobbers"]:
            viol.append({"key": "alloc:scratch-is-declared-clobber",
                         "msg": r})
    try:
        pro, epi, adj = abi._create_prologue_and_epilogue(
            cons, regs, c["leaf"])
        pro, epi = list(pro), list(epi)
        # what the patch is handed afterwards is still what was allocated
        after = [r.name for r in regs.scratch_registers]
        if after != scratch:
            viol.append({"key": "alloc:scratch-list-changed-by-prologue",
                         "msg": f"{after} != {scratch}"})
    except NotImplementedError:
        if abi_name == "mips32-elf" and c["align"]:
            ctr["expected_refusals"] += 1
            return {"sig": sig + ":notimpl", "violations": viol,
                    "counters": ctr}
        raise
    try:
        pbytes = assemble(isa_g, fmt, pro)
        ebytes = assemble(isa_g, fmt, epi)
    except Exception as e:  # noqa
        viol.append({"key": f"prologue:not-assemblable:{type(e).__name__}",
                     "msg": f"{e!r} :: {[s.code for s in pro + epi]}"[:600]})
        return {"sig": sig, "violations": viol, "counters": ctr}
    rng = random.Random(c["seed"])
    ptr = 8 if isa in ("x64", "arm64") else 4
    mask = (1 << (8 * ptr)) - 1
    names = [canon(abi_name, r) for r in ALLREGS[abi_name]]
    if isa in ("x64", "ia32"):
        names += ["rbp"]
    declared = {canon(abi_name, r) for r in c["clobbers"]} | {
        canon(abi_name, r) for r in scratch}
    if c["caller"]:
        declared |= {canon(abi_name, r) for r in CALLER[abi_name]}
    residues = {"x64": [0, 8, 1, 4, 15], "ia32": [0, 4, 8, 12, 1, 3],
                "arm64": [0], "mips32": [0]}[isa]
    for res in residues[:3 if len(residues) > 3 else len(residues)] + \
            [rng.choice(residues)]:
        sp0 = (0x7FFF0000 + res) if isa != "arm64" else 0x7FFF0000
        init = {n: rng.getrandbits(8 * ptr) for n in names}
        f0 = rng.getrandbits(12)
        mc = emu.Machine(isa, init, sp0, f0, red_zone=RED.get(abi_name, 0),
                         leaf=c["leaf"])
        try:
            mc.phase = "prologue"
            mc.run(pbytes)
            sp_body = mc.sp
            if adj is not None and sp0 - sp_body != adj:
                viol.append({"key": "prologue:stack_adjustment-wrong",
                             "msg": f"reported {adj}, real {sp0 - sp_body}"})
            if adj is None and not c["align"]:
                viol.append({"key": "prologue:stack_adjustment-unknown",
                             "msg": "None without align_stack"})
            if c["align"] and sp_body % ALIGN[abi_name]:
                viol.append({"key": "prologue:body-stack-not-aligned",
                             "msg": f"sp {sp_body:#x} % {ALIGN[abi_name]}"})
            if sp_body > sp0:
                viol.append({"key": "prologue:sp-above-original",
                             "msg": hex(sp_body)})
            flags_after_pro = mc.flags
            if not c["flags"] and mc.flags != f0:
                ctr["undeclared_flag_clobbers"] += 1
            # body: havoc everything declared, use the stack below sp
            mc.phase = "body"
            for n in declared:
                mc.regs[n] = rng.getrandbits(8 * ptr)
            if c["flags"]:
                mc.flags = rng.getrandbits(12) | 0x8000
            depth = rng.choice([0, 8, 64, 200])
            for a in range(sp_body - depth, sp_body):
                mc.mem[a] = rng.getrandbits(8)
                mc.shadow[a] = "body"
            body_flags = mc.flags
            mc.phase = "epilogue"
            mc.run(ebytes)
        except emu.Unsupported as e:
            return {"sig": None, "violations": viol, "counters": ctr,
                    "inconclusive": f"unsupported-instruction:{e}"[:200]}
        ctr["instructions_executed"] += mc.ninstr
        ctr["stack_writes_shadowed"] += len(mc.shadow)
        for key, msg in mc.problems:
            viol.append({"key": "stack:" + key, "msg": msg})
        if mc.sp != sp0:
            viol.append({"key": "epilogue:sp-not-restored",
                         "msg": f"{mc.sp - sp0:+d}"})
        for n in names:
            if mc.regs[n] != init[n]:
                kind = "declared" if n in declared else "undeclared"
                viol.append({"key": f"epilogue:{kind}-register-not-restored",
                             "msg": f"{n}: {mc.regs[n]!r} != {init[n]:#x}"})
                break
        if c["flags"] and isa != "mips32" and mc.flags != f0:
            viol.append({"key": "epilogue:flags-not-restored",
                         "msg": f"{mc.flags!r} != {f0:#x}"})
        if not c["flags"] and mc.flags not in (f0, flags_after_pro,
                                               body_flags) and \
                not isinstance(mc.flags, tuple):
            viol.append({"key": "epilogue:flags-garbage",
                         "msg": f"{mc.flags!r}"})
        ctr["configurations_executed"] += 1
    return {"sig": sig, "violations": viol, "counters": ctr}
