"""C14: DWARF expression/CFI encodings round-trip and match the standard."""
import dataclasses
import io

from .. import dwarfref as R

PROP = "C14"
LEVEL = "exploration"
TECHNIQUE = "reference-model monitor: independent DWARF v4 codec vs library"
RULE = (
    "cases: (a) every modelled DW_OP/DW_CFA class with operands drawn from "
    "range boundaries (0, +-1, 2^k-1, 2^k, 2^k+1, one beyond), nested "
    "expressions, both byte orders, pointer sizes 4/8: encode vs reference "
    "bytes, decode(encode) equality and consumed length, directive form "
    "re-encoded by the reference; (b) out-of-range operands must raise "
    "ValueError - also as a history: a valid object is encoded, the operand "
    "(possibly of an operation nested in an instruction's expression) is "
    "updated in place and the object encoded again; (c) all 256 first bytes x {op,cfa} x order x ptr with "
    "deterministic tails (exhaustive sub-space) compared with the reference "
    "decoder incl. truncation; (d) parse_cfi_instructions on concatenations; "
    "(e) make_const_op value and minimal length.  A case is non-trivial when "
    "at least one SUT-vs-reference comparison that could fail was made; "
    "distinct = distinct (kind, class/opcode, operand-boundary class) "
    "signatures."
    " Escape-encoded instructions are also assembled from their"
    " assembly_string() by the library's assembler (x86-64 ELF) and"
    " the recorded cfiDirectives operands compared."
)
RULE += " After each make_const_op request the returned operation is edited in place and the constant requested again: the second answer is a different object pushing the requested value."
ASSUMPTIONS = [
    "reference codec in vt/dwarfref.py is a faithful transcription of the "
    "DWARF v4 opcode tables",
    "set of modelled operations is the class list of this tree; unknown "
    "first bytes may either be rejected with ValueError or round-trip",
]
BUDGET = {"quick": (24000, 25), "thorough": (1200000, 420)}

OP_CLASS = {
    "dup": "OpDup", "drop": "OpDrop", "pick": "OpPick", "over": "OpOver",
    "swap": "OpSwap", "rot": "OpRot", "xderef": "OpXDeref",
    "deref": "OpDeref", "deref_size": "OpDerefSize", "abs": "OpAbs",
    "and": "OpAnd", "div": "OpDiv", "minus": "OpMinus", "mod": "OpMod",
    "mul": "OpMul", "neg": "OpNeg", "not": "OpNot", "or": "OpOr",
    "plus": "OpPlus", "plus_uconst": "OpPlusUConst", "shl": "OpShl",
    "shr": "OpShr", "shra": "OpShrA", "xor": "OpXor", "skip": "OpSkip",
    "bra": "OpBra", "eq": "OpEq", "ge": "OpGe", "gt": "OpGt", "le": "OpLe",
    "lt": "OpLt", "ne": "OpNe", "addr": "OpAddr", "const1u": "OpConst1U",
    "const1s": "OpConst1S", "const2u": "OpConst2U", "const2s": "OpConst2S",
    "const4u": "OpConst4U", "const4s": "OpConst4S", "const8u": "OpConst8U",
    "const8s": "OpConst8S", "consts": "OpConstS", "constu": "OpConstU",
    "lit": "OpLit", "reg": "OpReg", "regx": "OpRegX", "breg": "OpBReg",
    "bregx": "OpBRegX",
}
CFA_CLASS = {
    "def_cfa": "InstDefCFA", "def_cfa_sf": "InstDefCFASF",
    "def_cfa_register": "InstDefCFARegister",
    "def_cfa_offset": "InstDefCFAOffset",
    "def_cfa_offset_sf": "InstDefCFAOffsetSF",
    "def_cfa_expression": "InstDefCFAExpression",
    "undefined": "InstUndefined", "same_value": "InstSameValue",
    "offset": "InstOffset", "offset_extended": "InstOffsetExtended",
    "offset_extended_sf": "InstOffsetExtendedSF",
    "val_offset": "InstValOffset", "val_offset_sf": "InstValOffsetSF",
    "register": "InstRegister", "expression": "InstExpression",
    "val_expression": "InstValExpression", "restore": "InstRestore",
    "restore_extended": "InstRestoreExtended",
    "remember_state": "InstRememberState",
    "restore_state": "InstRestoreState", "nop": "InstNop",
}
CLASS_OP = {v: k for k, v in OP_CLASS.items()}
CLASS_CFA = {v: k for k, v in CFA_CLASS.items()}


def sut():
    from gtirb_rewriting.dwarf import cfi, expr
    return expr, cfi


def to_sut_op(op):
    expr, _ = sut()
    return getattr(expr, OP_CLASS[op[0]])(*op[1:])


def to_sut_cfa(inst):
    _, cfi = sut()
    kinds = R.cfa_operand_kinds(inst[0])
    args = []
    for k, v in zip(kinds, inst[1:]):
        args.append([to_sut_op(o) for o in v] if k == "expr" else v)
    return getattr(cfi, CFA_CLASS[inst[0]])(*args)


def from_sut(obj):
    """SUT object -> reference tuple (by class name and field order)."""
    cname = type(obj).__name__
    name = CLASS_OP.get(cname) or CLASS_CFA.get(cname)
    if name is None:
        return ("?" + cname,)
    vals = []
    for f in dataclasses.fields(obj):
        v = getattr(obj, f.name)
        if isinstance(v, (list, tuple)):
            v = [from_sut(o) for o in v]
        vals.append(v)
    return (name, *vals)


def tl(x):
    """tuples -> lists-free comparable form"""
    if isinstance(x, (list, tuple)):
        return tuple(tl(i) for i in x)
    return x


# ---------------------------------------------------------------- generators
def boundary_values(rng, lo, hi):
    cands = [0, 1, -1, 2, 127, 128, 129, 255, 256, 32767, 32768, 65535, 65536]
    k = rng.randrange(1, 65)
    cands += [(1 << k) - 1, 1 << k, (1 << k) + 1, -(1 << k), -(1 << k) - 1,
              -(1 << k) + 1]
    cands.append(rng.randrange(-(1 << 63), 1 << 64))
    if lo is not None:
        cands += [lo, lo + 1]
    if hi is not None:
        cands += [hi, hi - 1]
    if lo is None:
        cands += [-(1 << 63), -(1 << 70)]
    if hi is None:
        cands += [(1 << 64) - 1, 1 << 70]
    ok = [c for c in cands
          if (lo is None or c >= lo) and (hi is None or c <= hi)]
    return rng.choice(ok)


def bclass(v):
    if isinstance(v, list):
        return "e%d" % min(len(v), 3)
    if v == 0:
        return "0"
    a = abs(v)
    return ("-" if v < 0 else "+") + str(a.bit_length())


def gen_op(rng, ptr, depth=0):
    name = rng.choice(list(OP_CLASS))
    vals = []
    for k in R.op_operand_kinds(name):
        lo, hi = R.kind_range(k, ptr)
        vals.append(boundary_values(rng, lo, hi))
    return (name, *vals)


def gen_cfa(rng, ptr):
    name = rng.choice(list(CFA_CLASS))
    vals = []
    for k in R.cfa_operand_kinds(name):
        if k == "expr":
            # mostly short; sometimes long enough for the block length to
            # need a 2- or 3-byte ULEB128
            n = rng.choices([rng.randrange(0, 5), rng.randrange(40, 90),
                             rng.randrange(2500, 3500)], [90, 9, 1])[0]
            vals.append([gen_op(rng, ptr) for _ in range(n)])
        else:
            lo, hi = R.kind_range(k, ptr)
            vals.append(boundary_values(rng, lo, hi))
    return (name, *vals)


_ASM_MODULE = []


def assemble_directive(text):
    """[(directive, operands)] the Assembler records for one CFI line inside
    a procedure (start/end directives left out)"""
    import gtirb
    from gtirb_test_helpers import create_test_module
    from gtirb_rewriting.assembler import Assembler
    if not _ASM_MODULE:
        _ASM_MODULE.append(create_test_module(
            gtirb.Module.FileFormat.ELF, gtirb.Module.ISA.X64, ["DYN"]))
    ir, m = _ASM_MODULE[0]
    a = Assembler(m)
    try:
        a.assemble(".cfi_startproc\nnop\n" + text + "\nnop\n.cfi_endproc\n")
        res = a.finalize()
    except Exception as e:  # noqa
        return [("raises", [type(e).__name__])]
    out = []
    for off, ds in sorted(res.create_cfi_directives().items(),
                          key=lambda kv: kv[0].displacement):
        for name, args, _ in ds:
            if name not in (".cfi_startproc", ".cfi_endproc"):
                out.append((name, list(args)))
    return out


def gen_case(rng, tier, index):
    order = rng.choice(["little", "big"])
    ptr = rng.choice([4, 8])
    kind = rng.choices(
        ["op", "cfa", "range", "trunc", "concat", "const", "overrun",
         "garbage"],
        [20, 20, 14, 12, 8, 18, 4, 6])[0]
    c = {"kind": kind, "order": order, "ptr": ptr,
         "via_assembler": rng.random() < 0.3}
    if kind == "op":
        c["op"] = gen_op(rng, ptr)
        c["tail"] = list(rng.randbytes(rng.randrange(0, 4)))
    elif kind == "cfa":
        c["inst"] = gen_cfa(rng, ptr)
        c["tail"] = list(rng.randbytes(rng.randrange(0, 4)))
    elif kind == "range":
        space = rng.choice(["op", "cfa"])
        while True:
            if space == "op":
                name = rng.choice(list(OP_CLASS))
                kinds = R.op_operand_kinds(name)
            else:
                name = rng.choice(list(CFA_CLASS))
                kinds = R.cfa_operand_kinds(name)
            idxs = [i for i, k in enumerate(kinds)
                    if k != "expr" and R.kind_range(k, ptr) != (None, None)]
            if idxs:
                break
        i = rng.choice(idxs)
        lo, hi = R.kind_range(kinds[i], ptr)
        bad = []
        if lo is not None:
            bad += [lo - 1, lo - rng.randrange(1, 1 << 20), -(1 << 64)]
        if hi is not None:
            bad += [hi + 1, hi + rng.randrange(1, 1 << 20), 1 << 70]
            # (what a sign extension of a small negative number looks like)
            bad += [x for x in ((1 << 64) - 1,
                                (1 << 64) - rng.randrange(1, 1 << 31),
                                (1 << 32) - 1, (1 << 32) + 1)
                    if x > hi]
        vals = []
        for j, k in enumerate(kinds):
            if k == "expr":
                vals.append([])
            elif j == i:
                vals.append(rng.choice(bad))
            else:
                vals.append(boundary_values(rng, *R.kind_range(k, ptr)))
        c.update(space=space, name=name, vals=vals, bad_index=i,
                 bad_kind=kinds[i])
        if rng.random() < 0.5:
            # history: a valid object is built and encoded, the operand is
            # then updated in place (the objects are mutable dataclasses),
            # and the object - or the instruction whose expression holds
            # it - is encoded again
            c["mutate"] = {"good": boundary_values(rng, lo, hi),
                           "wrap": space == "op" and rng.random() < 0.4}
    elif kind == "trunc":
        space = rng.choice(["op", "cfa"])
        c["space"] = space
        if space == "op":
            while True:
                op = gen_op(rng, ptr)
                if len(R.encode_op(op, order, ptr)) > 1:
                    break
            c["obj"] = op
        else:
            while True:
                inst = gen_cfa(rng, ptr)
                if len(R.encode_cfa(inst, order, ptr)) > 1:
                    break
            c["obj"] = inst
    elif kind == "concat":
        c["insts"] = [gen_cfa(rng, ptr) for _ in range(rng.randrange(0, 7))]
    elif kind == "const":
        k = rng.randrange(0, 65)
        c["value"] = rng.choice([
            (1 << k) - 1, 1 << k, (1 << k) + 1, -(1 << k), -(1 << k) + 1,
            -(1 << k) - 1, rng.randrange(-(1 << 63), 1 << 64),
            rng.randrange(-300, 300), rng.randrange(0, 40)])
    elif kind == "overrun":
        # declared expression length cuts an operation short
        inner = None
        while inner is None or len(R.encode_op(inner, order, ptr)) < 2:
            inner = gen_op(rng, ptr)
        body = R.encode_op(inner, order, ptr)
        cut = rng.randrange(1, len(body))
        head = rng.choice([[0x0F], [0x10, 3], [0x16, 5]])
        c["bytes"] = head + list(R.uleb(cut)) + list(body) + list(
            rng.randbytes(rng.randrange(0, 6)))
    elif kind == "garbage":
        c["space"] = rng.choice(["op", "cfa"])
        c["bytes"] = list(rng.randbytes(rng.randrange(1, 12)))
    return c


def exhaustive(tier):
    for space in ("op", "cfa"):
        for order in ("little", "big"):
            for ptr in (4, 8):
                for b in range(256):
                    for tail in ([], [0x81, 0x01, 0x7F, 0x02, 0x03, 0x04,
                                      0x05, 0x06, 0x07, 0x08, 0x09],
                                 [0x80], [0x01]):
                        yield {"kind": "garbage", "space": space,
                               "order": order, "ptr": ptr,
                               "bytes": [b] + tail}
    if tier == "thorough":
        for v in range(-70000, 70000):
            yield {"kind": "const", "order": "little", "ptr": 8, "value": v}


# ---------------------------------------------------------------- oracle
def _decode_sut(space, data, order, ptr):
    expr, cfi = sut()
    cls = expr.Operation if space == "op" else cfi.Instruction
    return cls.decode(io.BytesIO(data), order, ptr)


def _decode_ref(space, data, order, ptr):
    rd = R.Reader(data)
    obj = (R.decode_op if space == "op" else R.decode_cfa)(rd, order, ptr)
    return obj, rd.pos


def check_decode_agrees(space, data, order, ptr, viol, ctr):
    """Compare SUT decode of arbitrary bytes with the reference."""
    ctr["decode_comparisons"] = ctr.get("decode_comparisons", 0) + 1
    ref = None
    try:
        ref = _decode_ref(space, data, order, ptr)
        ref_status = "ok"
    except R.Truncated:
        ref_status = "truncated"
    except R.BadOpcode:
        ref_status = "badop"
    try:
        obj, n = _decode_sut(space, data, order, ptr)
        sut_status = "ok"
    except ValueError:
        sut_status = "valueerror"
    except Exception as e:  # noqa
        sut_status = "exc:" + type(e).__name__
    if sut_status.startswith("exc:"):
        viol.append({
            "key": f"decode-raises-{sut_status[4:]}:ref-{ref_status}",
            "msg": f"{space} bytes={bytes(data).hex()} order={order} "
                   f"ptr={ptr}: SUT raised {sut_status}, ref {ref_status}"})
        return ref_status
    if ref_status == "ok":
        if sut_status != "ok":
            viol.append({"key": "decode-rejects-valid-encoding",
                         "msg": f"{space} {bytes(data).hex()} ref={ref}"})
        elif tl(from_sut(obj)) != tl(ref[0]) or n != ref[1]:
            viol.append({"key": "decode-differs-from-reference",
                         "msg": f"{space} {bytes(data).hex()} sut="
                                f"{from_sut(obj)},{n} ref={ref}"})
    elif ref_status == "truncated":
        if sut_status == "ok":
            viol.append({
                "key": "decode-accepts-truncated-input",
                "msg": f"{space} {bytes(data).hex()} order={order} ptr={ptr} "
                       f"-> {from_sut(obj)} consumed {n}"})
    else:  # badop: unknown to the reference
        if sut_status == "ok":
            # tolerated only if it round-trips (a newly modelled operation)
            try:
                again = bytes(obj.encode(order, ptr))
            except Exception:  # noqa
                again = None
            if again != bytes(data[:n]):
                viol.append({"key": "decode-unknown-opcode-no-roundtrip",
                             "msg": f"{space} {bytes(data).hex()}"})
    return ref_status


def run_case(c):
    expr, cfi = sut()
    kind, order, ptr = c["kind"], c["order"], c["ptr"]
    viol, ctr = [], {}
    sig = None

    def rt(space, ref_obj, tail):
        nonlocal sig
        enc_ref = (R.encode_op if space == "op" else R.encode_cfa)(
            ref_obj, order, ptr)
        try:
            obj = (to_sut_op if space == "op" else to_sut_cfa)(ref_obj)
            enc = bytes(obj.encode(order, ptr))
        except Exception as e:  # noqa
            viol.append({"key": f"valid-operand-rejected:{type(e).__name__}",
                         "msg": f"{ref_obj} {order} {ptr}: {e!r}"})
            return
        ctr["encode_comparisons"] = ctr.get("encode_comparisons", 0) + 1
        if enc != enc_ref:
            viol.append({"key": f"bytes-differ:{ref_obj[0]}",
                         "msg": f"{ref_obj}: sut={enc.hex()} "
                                f"ref={enc_ref.hex()}"})
            return
        data = enc + bytes(tail)
        try:
            back, n = _decode_sut(space, data, order, ptr)
        except Exception as e:  # noqa
            viol.append({"key": f"roundtrip-decode-raises:{type(e).__name__}",
                         "msg": f"{ref_obj} {enc.hex()}: {e!r}"})
            return
        ctr["roundtrips"] = ctr.get("roundtrips", 0) + 1
        if back != obj or type(back) is not type(obj):
            viol.append({"key": f"roundtrip-not-equal:{ref_obj[0]}",
                         "msg": f"{ref_obj}: back={from_sut(back)}"})
        if n != len(enc):
            viol.append({"key": f"roundtrip-consumed-length:{ref_obj[0]}",
                         "msg": f"{ref_obj}: consumed {n} != {len(enc)}"})
        if space == "cfa":
            d, args, _ = obj.gtirb_encoding(order, ptr)
            try:
                again = R.directive_to_bytes(d, args, order, ptr)
            except KeyError:
                viol.append({"key": "gtirb-encoding-unknown-directive",
                             "msg": f"{ref_obj}: {d}"})
                return
            ctr["gtirb_encodings"] = ctr.get("gtirb_encodings", 0) + 1
            if again != enc_ref:
                viol.append({"key": f"gtirb-encoding-differs:{ref_obj[0]}",
                             "msg": f"{ref_obj}: {d} {args} -> {again.hex()} "
                                    f"!= {enc_ref.hex()}"})
            if order == "little" and ptr == 8 and d == ".cfi_escape" and \
                    len(enc_ref) < 200 and c.get("via_assembler"):
                # the textual form, through the library's own assembler
                # (what a patch author writes), must arrive in the
                # cfiDirectives table byte for byte
                got = assemble_directive(obj.assembly_string(order, ptr))
                ctr["assembled_escapes"] = ctr.get("assembled_escapes", 0) + 1
                if got != [(d, list(args))]:
                    viol.append({
                        "key": "assembled-escape-differs",
                        "msg": f"{ref_obj}: {got} != {[(d, list(args))]}"[
                            :400]})

    if kind == "op":
        op = tuple(c["op"])
        rt("op", op, c["tail"])
        sig = "op:%s:%s:%s%d" % (op[0], ",".join(bclass(v) for v in op[1:]),
                                 order[0], ptr)
    elif kind == "cfa":
        inst = tuple(
            [tuple(o) for o in v] if isinstance(v, list) else v
            for v in c["inst"])
        rt("cfa", inst, c["tail"])
        sig = "cfa:%s:%s:%s%d" % (
            inst[0], ",".join(bclass(list(v) if isinstance(v, tuple) else v)
                              for v in inst[1:]), order[0], ptr)
    elif kind == "range":
        space, name, vals = c["space"], c["name"], c["vals"]
        ctr["range_probes"] = 1
        mut = c.get("mutate")
        try:
            cls = getattr(expr, OP_CLASS[name]) if space == "op" else \
                getattr(cfi, CFA_CLASS[name])
            if mut is None:
                obj = cls(*vals)
            else:
                good = list(vals)
                good[c["bad_index"]] = mut["good"]
                inner = cls(*good)
                obj = cfi.InstExpression(3, [expr.OpDup(), inner]) \
                    if mut["wrap"] else inner
                try:
                    obj.encode(order, ptr)
                except Exception as e:  # noqa
                    return {"sig": None, "violations": [{
                        "key": f"in-range-rejected:{type(e).__name__}",
                        "msg": f"{name}{good}: {e!r}"}], "counters": ctr}
                fld = dataclasses.fields(inner)[c["bad_index"]].name
                setattr(inner, fld, vals[c["bad_index"]])
                ctr["range_probes_after_update"] = 1
            enc = obj.encode(order, ptr)
            viol.append({
                "key": f"out-of-range-accepted:{c['bad_kind']}",
                "msg": f"{name}{vals} encoded as {bytes(enc).hex()}"})
        except ValueError:
            pass
        except Exception as e:  # noqa
            viol.append({
                "key": f"out-of-range-raises-{type(e).__name__}:"
                       f"{c['bad_kind']}",
                "msg": f"{name}{vals}: {e!r}"})
        sig = f"range:{name}:{c['bad_index']}:" + bclass(
            vals[c["bad_index"]]) + (
            "" if mut is None else ":updated" + ":nested" * mut["wrap"])
    elif kind == "trunc":
        space = c["space"]
        obj = c["obj"]
        if space == "op":
            obj = tuple(obj)
            enc = R.encode_op(obj, order, ptr)
        else:
            obj = tuple([tuple(o) for o in v] if isinstance(v, list) else v
                        for v in obj)
            enc = R.encode_cfa(obj, order, ptr)
        for cut in range(0, len(enc)):
            check_decode_agrees(space, enc[:cut], order, ptr, viol, ctr)
        sig = f"trunc:{space}:{obj[0]}:{len(enc)}"
    elif kind == "concat":
        insts = [tuple([tuple(o) for o in v] if isinstance(v, list) else v
                       for v in i) for i in c["insts"]]
        data = b"".join(R.encode_cfa(i, order, ptr) for i in insts)
        try:
            got = list(cfi.parse_cfi_instructions(data, order, ptr))
            ctr["concat_comparisons"] = 1
            if [tl(from_sut(g)) for g in got] != [tl(i) for i in insts]:
                viol.append({"key": "parse-concat-differs",
                             "msg": f"{insts} -> {[from_sut(g) for g in got]}"
                             })
        except Exception as e:  # noqa
            viol.append({"key": f"parse-concat-raises:{type(e).__name__}",
                         "msg": f"{insts}: {e!r}"})
        sig = "concat:" + ",".join(sorted({i[0] for i in insts}))[:80]
    elif kind == "const":
        v = c["value"]
        in_range = -(1 << 63) <= v < (1 << 64)
        try:
            op = expr.make_const_op(v)
            compat = expr.OpConst(v)
        except ValueError:
            op = None
            if in_range:
                viol.append({"key": "const-in-range-rejected",
                             "msg": str(v)})
        if op is not None:
            ctr["const_evaluations"] = 1
            ref = from_sut(op)
            if ref[0] not in R.CONST_OPS:
                viol.append({"key": "const-not-a-constant-op",
                             "msg": f"{v}: {ref}"})
            else:
                enc = bytes(op.encode(order, ptr))
                # evaluate through the reference decoder, not the object
                dec, n = _decode_ref("op", enc, order, ptr)
                if R.const_value(dec) != v or n != len(enc):
                    viol.append({"key": "const-wrong-value",
                                 "msg": f"{v}: {ref} {enc.hex()} -> {dec}"})
                if not in_range:
                    pass
                elif len(enc) != R.shortest_const_len(v):
                    viol.append({
                        "key": "const-not-shortest",
                        "msg": f"{v}: {ref} len {len(enc)} > "
                               f"{R.shortest_const_len(v)}"})
                if compat != op:
                    viol.append({"key": "const-compat-ctor-differs",
                                 "msg": f"{v}: {from_sut(compat)} vs {ref}"})
            # the operation returned belongs to the caller: editing it in
            # place (as one edits an expression it was put into) must not
            # change what the next request for the same constant gives
            if in_range and "value" in getattr(op, "__dict__", {}):
                op.value = v - 1 if v > 0 else v + 1
                try:
                    again = expr.make_const_op(v)
                    dec2, _ = _decode_ref(
                        "op", bytes(again.encode(order, ptr)), order, ptr)
                    ctr["const_reuse_probes"] = 1
                    if again is op or R.const_value(dec2) != v:
                        viol.append({
                            "key": "const-second-request-sees-callers-edit",
                            "msg": f"{v}: second make_const_op gives "
                                   f"{from_sut(again)}"})
                except Exception as e:  # noqa
                    viol.append({
                        "key": "const-second-request-raises:"
                               + type(e).__name__, "msg": f"{v}: {e!r}"})
        sig = "const:" + bclass(v) + (":" + from_sut(op)[0] if op else "")
    elif kind == "overrun":
        data = bytes(c["bytes"])
        st = check_decode_agrees("cfa", data, order, ptr, viol, ctr)
        sig = f"overrun:{data[0]:02x}:{st}"
    elif kind == "garbage":
        data = bytes(c["bytes"])
        st = check_decode_agrees(c["space"], data, order, ptr, viol, ctr)
        sig = f"garbage:{c['space']}:{data[0]:02x}:{st}:{order[0]}{ptr}"
        if c["space"] == "cfa" and st == "ok":
            # parse_cfi_instructions on a single instruction + nothing
            ref, n = _decode_ref("cfa", data, order, ptr)
            try:
                got = list(cfi.parse_cfi_instructions(data[:n], order, ptr))
                if [tl(from_sut(g)) for g in got] != [tl(ref)]:
                    viol.append({"key": "parse-concat-differs",
                                 "msg": f"{data[:n].hex()}"})
            except Exception as e:  # noqa
                viol.append({"key": f"parse-concat-raises:{type(e).__name__}",
                             "msg": f"{data[:n].hex()}: {e!r}"})
    return {"sig": sig, "violations": viol, "counters": ctr}
