"""C04: symbolic expressions and offset-keyed aux data travel with bytes."""
from .. import oracles
from . import rwbase

PROP = "C04"
LEVEL = "exploration"
TECHNIQUE = "reference-model monitor: every annotated byte carries a unique tag; tag positions of the edited listing vs re-keyed tables of the rewritten module"
RULE = (
    "same seeded rewrite scenarios as C01 with symbolic operands (code and "
    "data words, addends), and comments/padding entries with unique values "
    "on ~20% of items, block-keyed and interval-keyed; after apply() every "
    "interval's symbolic-expression offsets, symbols (by identity), addends, "
    "attributes and symbolicExpressionSizes entries and every comments/"
    "padding entry re-keyed to (interval, offset) are compared with the "
    "edited listing; patch-created expressions are compared with what the "
    "assembler returned for that invocation. non-trivial = apply() returned "
    "with >=1 edit and >=1 expression or annotation compared; distinct = "
    "distinct shape signatures. Patch operands carry addends (also on "
    "ARM64 pc-relative literal loads). 20% of the modules start without "
    "a symbolicExpressionSizes table (patch-created entries only)."
    " Second module in the IR as in C01: its symbolic expressions and offset-keyed tables must be unchanged."
    " 8% of the modules are big-endian MIPS32 ELF (%hi/%lo operands carry HI/LO attributes)."
    " 1% of the modules have 30-89 code blocks."
)
ASSUMPTIONS = [
    "annotations keyed at offset == block size are not generated (they annotate no byte)",
    "CFI directives are judged by C08",
]
BUDGET = {"quick": (6000, 40), "thorough": (250000, 540)}
REQUIRED_COUNTERS = ["applies", "expressions_compared",
                     "annotations_compared", "patch_expressions_compared"]



def gen_case(rng, tier, index):
    case = rwbase.gen_case(rng, tier, index, mips_p=0.08, big_p=0.01)
    if rng.random() < 0.2:
        # a module that has no symbolicExpressionSizes table: the sizes of
        # what patches add must still be recorded, for every patch
        case["no_expr_sizes_table"] = True
    return case


def run_case(case):
    a = rwbase.analyze(case)
    if a.skip is None:
        v, c = oracles.check_aux(a.run, a.lst, a.ob)
        a.viol += v
        a.ctr.update(c)
    rwbase.bystander(a, PROP)
    return rwbase.result(a)
