"""C02: symbols keep designating the same place in the edited listing."""
from .. import oracles
from . import rwbase

PROP = "C02"
LEVEL = "exploration"
TECHNIQUE = "reference-model monitor: label positions of the edited listing vs resolved symbol referents"
RULE = (
    "same seeded rewrite scenarios as C01 (0-2 start labels and 0-1 at_end "
    "labels per block, patch-defined global and trailing labels, whole-block "
    "deletions incl. chains, last block of a section, proxy deletions, "
    "delete_function); every label's resolved (section, linear offset) or "
    "proxy identity is compared with its token position in the edited "
    "listing; all module symbols must be attached. non-trivial = apply() "
    "returned with >=1 edit and >=1 label compared; distinct = distinct shape "
    "signatures. Modules and patches as in C01 (zero-sized input blocks "
    "carry labels too). A label that slid off a wholly deleted block in "
    "front of a data block must be the START of what follows, not the end "
    "of the block in front (referent identity and at_end are compared)."
    " Second module in the IR as in C01: its symbols, proxies and entry point must be unchanged."
    " 8% of the modules are big-endian MIPS32 ELF (as in C01)."
    " 1% of the modules have 30-89 code blocks."
)
ASSUMPTIONS = [
    "position = (section, byte offset counted over the section's original intervals in original order), so the end of one interval and the start of the next are the same place",
    "don't-care 5 (DESIGN 2.1): a label that slid off a deleted block onto a neighbour that is itself proxy-deleted may end on that proxy",
]
BUDGET = {"quick": (6000, 40), "thorough": (250000, 540)}
REQUIRED_COUNTERS = ["applies", "labels_compared"]

def gen_case(rng, tier, index):
    return rwbase.gen_case(rng, tier, index, mips_p=0.08, big_p=0.01)


def run_case(case):
    a = rwbase.analyze(case)
    if a.skip is None:
        v, c = oracles.check_symbols(a.run, a.lst, a.ob)
        a.viol += v
        a.ctr.update(c)
    rwbase.bystander(a, PROP)
    return rwbase.result(a)
