"""C15: CFI evaluation implements the DWARF rules and fails cleanly."""
import copy
import uuid as uuidlib

import gtirb

from .. import dwarfref as R
from . import c14

PROP = "C15"
LEVEL = "exploration"
TECHNIQUE = "reference-model monitor: independent CFI interpreter vs evaluate_cfi_directives at every yield, plus an aliasing monitor on copies of yielded states"
RULE = (
    "directive sequences (1-40 directives over 1-5 blocks and several "
    "offsets; 1-4 procedures; nested remember/restore; restore with and "
    "without an initial rule; directives after endproc at the same offset; "
    "escaped expression instructions; personality/LSDA/return column) for "
    "the ABIs that define a return column (x86-64 ELF, ARM64, MIPS32) are "
    "evaluated by the library and by the reference interpreter; every "
    "yielded (block, offset, state) is compared at yield time, the yield "
    "order must be address order, and copies taken at each yield are "
    "compared again after the run. Invalid sequences carry exactly one "
    "defect (directive outside a procedure, nested startproc, restore_state "
    "on an empty stack, offset change with expression CFA, rel_offset "
    "without offset rule, missing symbol, wrong arity, malformed escape "
    "bytes) and must raise CFIStateError/ValueError after the matching "
    "prefix of yields. non-trivial = >=1 state comparison or a judged "
    "error; distinct = (abi, validity class, multiset of directive names)."
    " Zero-sized blocks at the address of the following block, table"
    " keys inserted in shuffled order, modules with undefined byte"
    " order, stray/duplicate .cfi_endproc and truncated fixed-width"
    " operands among the ill-formed classes."
)
RULE += (
    " 15% of the escape-carrying cases are evaluated a second time as a module of another pointer size in the same process; PE modules (no DWARF return column): errors in front of .cfi_startproc stay errors, procedures are 'unsupported'."
)
ASSUMPTIONS = [
    ".cfi_rel_offset follows the semantics the repository documents (offset rule + delta)",
    "escaped instructions outside the evaluator's supported subset are 'unsupported' (NotImplementedError) by design: both sides must agree",
]
BUDGET = {"quick": (30000, 35), "thorough": (600000, 480)}
REQUIRED_COUNTERS = ["state_comparisons", "copy_comparisons",
                     "error_cases_judged"]

ABIS = {"x64": (gtirb.Module.ISA.X64, 16, "little", 8),
        "arm64": (gtirb.Module.ISA.ARM64, 32, "little", 8),
        "mips32": (gtirb.Module.ISA.MIPS32, 32, "little", 4),
        # PE: no DWARF return column is defined
        "x64-pe": (gtirb.Module.ISA.X64, None, "little", 8)}
NULL = uuidlib.UUID(int=0)


def gen_expr(rng, ptr=4):
    ops = [c14.gen_op(rng, ptr) for _ in range(rng.randrange(1, 4))]
    if rng.random() < 0.4:
        # what compilers actually emit: a register-relative location with a
        # (usually negative) offset, and multi-byte constants
        ops.insert(rng.randrange(0, len(ops) + 1), rng.choice([
            ("breg", rng.randrange(0, 32),
             rng.choice([-8, -16, -200, -1, 8, 64, -(1 << 20)])),
            ("bregx", rng.randrange(0, 70), rng.choice([-8, -4096, 24])),
            ("const2u", rng.choice([256, 0x1234, 1])),
            ("const4u", rng.choice([0x10000, 0x12345678])),
            ("addr", rng.choice([0x401000, 0x1234])),
        ]))
    return ops


def gen_case(rng, tier, index):
    abi = rng.choice([a for a in ABIS if a != "x64-pe"] * 3 + ["x64-pe"])
    order, ptr = ABIS[abi][2], ABIS[abi][3]
    nblocks = rng.randrange(1, 6)
    sizes = [rng.randrange(1, 9) for _ in range(nblocks)]
    # a zero-sized block stands at the address of the block behind it
    # (never two in a row: their mutual order would be undefined)
    for k in range(nblocks - 1):
        if rng.random() < 0.15 and (k == 0 or sizes[k - 1]):
            sizes[k] = 0
    nprocs = rng.choice([1, 1, 2, 3, 4])
    seq = []   # flat list of directives in order
    for _ in range(nprocs):
        seq.append([".cfi_startproc", [], None])
        st = {"cfa": None, "regs": {}, "depth": 0}
        if rng.random() < 0.8:
            r = rng.randrange(0, 32)
            seq.append([".cfi_def_cfa", [r, rng.randrange(0, 64)], None])
            st["cfa"] = "regoff"
        for _ in range(rng.randrange(0, 12)):
            k = rng.random()
            reg = rng.randrange(0, 20)
            if k < 0.12 and st["cfa"] == "regoff":
                seq.append([rng.choice([".cfi_def_cfa_offset",
                                        ".cfi_adjust_cfa_offset"]),
                            [rng.randrange(-32, 64)], None])
            elif k < 0.18 and st["cfa"] == "regoff":
                seq.append([".cfi_def_cfa_register", [reg], None])
            elif k < 0.26:
                seq.append([".cfi_def_cfa", [reg, rng.randrange(0, 64)],
                            None])
                st["cfa"] = "regoff"
            elif k < 0.40:
                seq.append([".cfi_offset", [reg, rng.randrange(-64, 64)],
                            None])
                st["regs"][reg] = "off"
            elif k < 0.46 and st["regs"].get(reg) == "off":
                seq.append([".cfi_rel_offset", [reg, rng.randrange(-8, 8)],
                            None])
            elif k < 0.52:
                seq.append([rng.choice([".cfi_undefined",
                                        ".cfi_same_value"]), [reg], None])
                st["regs"][reg] = "x"
            elif k < 0.57:
                seq.append([".cfi_register", [reg, rng.randrange(0, 20)],
                            None])
                st["regs"][reg] = "x"
            elif k < 0.62:
                seq.append([".cfi_val_offset", [reg, rng.randrange(-8, 64)],
                            None])
                st["regs"][reg] = "x"
            elif k < 0.70:
                seq.append([".cfi_restore", [reg], None])
                st["regs"].pop(reg, None)
            elif k < 0.78:
                seq.append([".cfi_remember_state", [], None])
                st["depth"] += 1
            elif k < 0.85 and st["depth"]:
                seq.append([".cfi_restore_state", [], None])
                st["depth"] -= 1
                st["cfa"] = "unknown-but-fine"
                st["regs"] = {}
            elif k < 0.92:
                which = rng.choice(["def_cfa_expression", "expression",
                                    "val_expression", "nop"])
                if which == "def_cfa_expression":
                    inst = (which, gen_expr(rng))
                    st["cfa"] = "expr"
                elif which == "nop":
                    inst = ("nop",)
                else:
                    inst = (which, reg, gen_expr(rng))
                    st["regs"][reg] = "x"
                data = R.encode_cfa(inst, order, ptr)
                if rng.random() < 0.3:
                    data += R.encode_cfa(("nop",), order, ptr)
                seq.append([".cfi_escape", list(data), None])
            elif k < 0.95:
                seq.append([rng.choice([".cfi_personality", ".cfi_lsda"]),
                            [rng.choice([0, 0x1b, 0x9b, 0xff])],
                            rng.choice(["sym0", "sym1"])])
            else:
                seq.append([".cfi_return_column", [rng.randrange(0, 40)],
                            None])
            if st["cfa"] == "unknown-but-fine":
                # after restore_state the CFA kind is whatever it was: stop
                # generating CFA-relative directives for simplicity
                st["cfa"] = None
        seq.append([".cfi_endproc", [], None])
    defect = None
    if rng.random() < 0.35:
        defect = rng.choice([
            "outside", "nested", "restore-empty", "offset-expr-cfa",
            "rel-without-offset", "missing-symbol", "arity", "bad-escape",
            "restore-no-rule", "unknown-directive", "unsupported-escape",
            "offset-no-cfa", "endproc-outside"])
        pos = rng.randrange(0, len(seq) + 1)
        if defect == "outside":
            seq.insert(0 if rng.random() < 0.5 else len(seq),
                       [".cfi_def_cfa_offset", [8], None])
        elif defect == "endproc-outside":
            # a stray .cfi_endproc: in front of everything, or a procedure
            # closed twice
            ends = [i for i, d in enumerate(seq) if d[0] == ".cfi_endproc"]
            seq.insert(0 if rng.random() < 0.3 else rng.choice(ends) + 1,
                       [".cfi_endproc", [], None])
        elif defect == "nested":
            inner = [i for i, d in enumerate(seq)
                     if d[0] == ".cfi_startproc"]
            seq.insert(rng.choice(inner) + 1, [".cfi_startproc", [], None])
        elif defect == "restore-empty":
            inner = [i for i, d in enumerate(seq)
                     if d[0] == ".cfi_startproc"]
            seq.insert(rng.choice(inner) + 1,
                       [".cfi_restore_state", [], None])
        elif defect in ("offset-expr-cfa", "offset-no-cfa"):
            inner = [i for i, d in enumerate(seq)
                     if d[0] == ".cfi_startproc"]
            at = rng.choice(inner) + 1
            ins = [[rng.choice([".cfi_def_cfa_offset",
                                ".cfi_adjust_cfa_offset",
                                ".cfi_def_cfa_register"]), [4], None]]
            if defect == "offset-expr-cfa":
                ins.insert(0, [".cfi_escape", list(R.encode_cfa(
                    ("def_cfa_expression", gen_expr(rng)), order, ptr)),
                    None])
            seq[at:at] = ins
        elif defect == "rel-without-offset":
            inner = [i for i, d in enumerate(seq)
                     if d[0] == ".cfi_startproc"]
            seq.insert(rng.choice(inner) + 1,
                       [".cfi_rel_offset", [31, 4], None])
        elif defect == "missing-symbol":
            inner = [i for i, d in enumerate(seq)
                     if d[0] == ".cfi_startproc"]
            seq.insert(rng.choice(inner) + 1,
                       [rng.choice([".cfi_personality", ".cfi_lsda"]),
                        [0x1b], None])
        elif defect == "arity":
            inner = [i for i, d in enumerate(seq)
                     if d[0] == ".cfi_startproc"]
            seq.insert(rng.choice(inner) + 1, rng.choice([
                [".cfi_def_cfa", [1], None],
                [".cfi_offset", [1, 2, 3], None],
                [".cfi_undefined", [], None],
                [".cfi_def_cfa_offset", [1, 2], None]]))
        elif defect == "bad-escape":
            inner = [i for i, d in enumerate(seq)
                     if d[0] == ".cfi_startproc"]
            good = R.encode_cfa(("expression", 3, gen_expr(rng)), order, ptr)
            # an expression whose last operand (fixed width) is cut short
            # while its length field says exactly what is there
            cut = b"".join(R.encode_op(o, order, ptr) for o in gen_expr(rng))
            cut += R.encode_op(rng.choice([("const4u", 0x12345678),
                                           ("const2u", 0x1234),
                                           ("const8u", 1 << 40)]),
                               order, ptr)[:-1]
            short = [0x0F] + list(R.uleb(len(cut))) + list(cut)
            bad = rng.choice([list(good[:-1]), short, short,
                              [0x0F, 0x05, 0x08],
                              [0x10, 0x81], [0x16, 0x01, 0x02, 0x10, 0x80],
                              [0x0F, 0x01, 0x08, 0x2A], [0x3F]])
            seq.insert(rng.choice(inner) + 1, [".cfi_escape", bad, None])
        elif defect == "restore-no-rule":
            inner = [i for i, d in enumerate(seq)
                     if d[0] == ".cfi_startproc"]
            seq.insert(rng.choice(inner) + 1, [".cfi_restore", [63], None])
            defect = None   # perfectly valid: register without any rule
        elif defect == "unknown-directive":
            inner = [i for i, d in enumerate(seq)
                     if d[0] == ".cfi_startproc"]
            seq.insert(rng.choice(inner) + 1, [".cfi_window_save", [], None])
        elif defect == "unsupported-escape":
            inner = [i for i, d in enumerate(seq)
                     if d[0] == ".cfi_startproc"]
            seq.insert(rng.choice(inner) + 1, [".cfi_escape", list(
                R.encode_cfa(("def_cfa_sf", 7, -2), order, ptr)), None])
    # distribute over locations
    locs = []
    total = sum(s + 1 for s in sizes)
    cuts = sorted(rng.sample(range(1, len(seq)), min(
        len(seq) - 1, rng.randrange(0, min(len(seq), total)))))         if len(seq) > 1 else []
    groups = []
    prev = 0
    for c in cuts + [len(seq)]:
        groups.append(seq[prev:c])
        prev = c
    slots = [(b, o) for b in range(nblocks) for o in range(sizes[b] + 1)]
    chosen = sorted(rng.sample(slots, min(len(groups), len(slots))))
    while len(groups) > len(chosen):
        groups[-2:] = [groups[-2] + groups[-1]]
    for (b, o), g in zip(chosen, groups):
        locs.append([b, o, g])
    case = {"abi": abi, "sizes": sizes, "locs": locs, "defect": defect,
            "shuffle": rng.randrange(1 << 30),
            "undefined_byte_order": rng.random() < 0.3}
    if rng.random() < 0.15 and any(d[0] == ".cfi_escape"
                                   for _, _, g in locs for d in g):
        case["twin"] = rng.choice([a for a in ABIS
                                   if ABIS[a][3] != ptr] or [abi])
    return case


def build(case):
    isa, _, order, ptr = ABIS[case["abi"]]
    ir = gtirb.IR()
    # (a module whose byte order was never set is little-endian for the
    # little-endian-only ISAs)
    bo = gtirb.Module.ByteOrder.Undefined if (
        case.get("undefined_byte_order") and case["abi"] in ("x64", "arm64")
    ) else gtirb.Module.ByteOrder.Little
    m = gtirb.Module(name="t", isa=isa,
                     file_format=gtirb.Module.FileFormat.PE
                     if case["abi"].endswith("-pe")
                     else gtirb.Module.FileFormat.ELF,
                     byte_order=bo)
    m.ir = ir
    sec = gtirb.Section(name=".text")
    sec.module = m
    total = sum(case["sizes"]) + 4 * len(case["sizes"])
    bi = gtirb.ByteInterval(contents=bytes(total), address=0x4000)
    bi.section = sec
    blocks = []
    off = 0
    for sz in case["sizes"]:
        b = gtirb.CodeBlock(offset=off, size=sz)
        b.byte_interval = bi
        blocks.append(b)
        off += sz + (4 if sz else 0)   # gaps for padding are allowed
    syms = {}
    for nme in ("sym0", "sym1"):
        s = gtirb.Symbol(nme, payload=blocks[0])
        s.module = m
        syms[nme] = s
    table = {}
    # the table is a mapping: the order in which its keys were inserted
    # carries no meaning
    import random as _random
    locs = list(case["locs"])
    _random.Random(case["shuffle"]).shuffle(locs)
    for b, o, ds in locs:
        table[gtirb.Offset(blocks[b], o)] = [
            (d[0], list(d[1]), syms[d[2]] if d[2] else NULL) for d in ds]
    m.aux_data["cfiDirectives"] = gtirb.AuxData(
        type_name="mapping<Offset,sequence<tuple<string,sequence<int64_t>,"
                  "UUID>>>", data=table)
    return m, blocks


def rule_of(r):
    n = type(r).__name__
    if n == "RegisterUndefined":
        return ("undefined",)
    if n == "RegisterSameValue":
        return ("same",)
    if n == "RegisterOffset":
        return ("off", r.offset)
    if n == "RegValOffset":
        return ("valoff", r.offset)
    if n == "RegisterInRegister":
        return ("reg", r.register)
    if n == "RegisterAtExpression":
        return ("atexpr", tuple(c14.tl(c14.from_sut(o))
                                for o in r.expression))
    if n == "RegisterIsExpression":
        return ("isexpr", tuple(c14.tl(c14.from_sut(o))
                                for o in r.expression))
    return ("?" + n,)


def cfa_of(c):
    if c is None:
        return None
    if type(c).__name__ == "CFARegisterOffset":
        return ("regoff", c.register, c.offset)
    return ("expr", tuple(c14.tl(c14.from_sut(o)) for o in c.expression))


def snap_sut(st):
    if st is None:
        return None

    def ptr(p):
        return None if p is None else (int(p.encoding), p.symbol.name)
    return {
        "return_column": st.return_column,
        "personality": ptr(st.personality), "lsda": ptr(st.lsda),
        "cfa": cfa_of(st.current.cfa),
        "regs": {k: rule_of(v) for k, v in st.current.registers.items()},
        "init_cfa": cfa_of(st.initial.cfa),
        "init_regs": {k: rule_of(v)
                      for k, v in st.initial.registers.items()},
        "stack": [(cfa_of(r.cfa), {k: rule_of(v)
                                   for k, v in r.registers.items()})
                  for r in st.save_stack],
    }


def norm_ref(s):
    if s is None:
        return None
    out = dict(s)

    def n(rule):
        if rule and rule[0] in ("atexpr", "isexpr"):
            return (rule[0], tuple(c14.tl(o) for o in rule[1]))
        return rule

    def ncfa(c):
        if c and c[0] == "expr":
            return ("expr", tuple(c14.tl(o) for o in c[1]))
        return c
    out["cfa"] = ncfa(s["cfa"])
    out["init_cfa"] = ncfa(s["init_cfa"])
    out["regs"] = {k: n(v) for k, v in s["regs"].items()}
    out["init_regs"] = {k: n(v) for k, v in s["init_regs"].items()}
    out["stack"] = [(ncfa(c), {k: n(v) for k, v in r.items()})
                    for c, r in s["stack"]]
    return out


def run_case(case):
    res = judge(case)
    if case.get("twin"):
        # the same directives (the very same escape bytes) in a module of
        # another ABI, evaluated next in this process: pointer size and byte
        # order are the module's, whatever was decoded before
        res2 = judge(dict(case, abi=case["twin"]))
        for v in res2["violations"]:
            v["msg"] = f"(as {case['twin']} after {case['abi']}) " + v["msg"]
        res["violations"] += res2["violations"]
        for k, v in res2["counters"].items():
            res["counters"][k] = res["counters"].get(k, 0) + v
        res["counters"]["evaluations_under_a_second_abi"] = 1
    return res


def judge(case):
    import random
    from gtirb_rewriting.dwarf.cfi_eval import (CFIStateError,
                                                evaluate_cfi_directives)
    viol = []
    ctr = {"state_comparisons": 0, "copy_comparisons": 0,
           "error_cases_judged": 0, "yields": 0}
    isa, retcol, order, ptr = ABIS[case["abi"]]
    m, blocks = build(case)
    # reference
    locs = [((b, o), [(d[0], d[1], d[2]) for d in ds])
            for b, o, ds in sorted(case["locs"])]
    ref = []
    ref_err = None
    try:
        for key, snap in R.interpret(locs, retcol, order, ptr):
            ref.append((key, norm_ref(snap)))
    except R.CfiError as e:
        ref_err = ("error", str(e))
    except R.CfiUnsupported as e:
        ref_err = ("unsupported", str(e))
    # SUT
    shuffled = list(blocks)
    random.Random(case["shuffle"]).shuffle(shuffled)
    got = []
    copies = []
    sut_err = None
    try:
        for blk, off, st in evaluate_cfi_directives(m, shuffled):
            ctr["yields"] += 1
            got.append(((blocks.index(blk), off), snap_sut(st)))
            copies.append(copy.copy(st) if st is not None else None)
    except (CFIStateError, ValueError) as e:
        sut_err = ("error", type(e).__name__ + ": " + str(e)[:80])
    except NotImplementedError as e:
        sut_err = ("unsupported", str(e)[:80])
    except Exception as e:  # noqa
        sut_err = ("other", type(e).__name__ + ": " + str(e)[:80])
    # compare the common prefix of yields
    n = min(len(ref), len(got))
    for i in range(n):
        ctr["state_comparisons"] += 1
        if ref[i][0] != got[i][0]:
            viol.append({"key": "cfi:yield-location-or-order-differs",
                         "msg": f"yield {i}: {got[i][0]} != {ref[i][0]}"})
            break
        if ref[i][1] != got[i][1]:
            a, b = ref[i][1], got[i][1]
            field = "state-none" if a is None or b is None else next(
                (k for k in a if a[k] != b.get(k)), "?")
            names = sorted({d[0] for d in case["locs"][i][2]}) \
                if i < len(case["locs"]) else []
            viol.append({
                "key": f"cfi:state-differs:{field}",
                "msg": f"yield {i} at {got[i][0]}: sut {b} ref {a} "
                       f"(directives there: {names})"})
            break
    if sut_err and sut_err[0] == "other":
        viol.append({"key": "cfi:raises-" + sut_err[1].split(":")[0] +
                            ":ref-" + (ref_err[0] if ref_err else "ok"),
                     "msg": f"{sut_err[1]} ; ref {ref_err}"})
    elif ref_err is None:
        if sut_err is not None:
            viol.append({"key": f"cfi:wellformed-sequence-{sut_err[0]}",
                         "msg": sut_err[1]})
        elif len(got) != len(ref):
            viol.append({"key": "cfi:yield-count-differs",
                         "msg": f"{len(got)} != {len(ref)}"})
    else:
        ctr["error_cases_judged"] += 1
        if sut_err is None:
            viol.append({"key": f"cfi:illformed-accepted:{ref_err[0]}",
                         "msg": f"ref {ref_err}; sut yielded {len(got)} "
                                f"states"})
        elif sut_err[0] != ref_err[0]:
            viol.append({"key": f"cfi:{ref_err[0]}-reported-as-"
                                f"{sut_err[0]}",
                         "msg": f"{sut_err} vs {ref_err}"})
        elif len(got) != len(ref):
            viol.append({"key": "cfi:error-at-different-location",
                         "msg": f"sut yielded {len(got)} ref {len(ref)}"})
    # aliasing: copies must still equal what was yielded then
    for i in range(min(n, len(copies))):
        ctr["copy_comparisons"] += 1
        if snap_sut(copies[i]) != got[i][1]:
            viol.append({"key": "cfi:copy-changed-after-yield",
                         "msg": f"yield {i}"})
            break
    names = sorted({d[0] for _, _, ds in case["locs"] for d in ds})
    sig = f"{case['abi']}:{case['defect']}:" + ",".join(
        n[5:] for n in names)
    return {"sig": sig, "violations": viol, "counters": ctr}
