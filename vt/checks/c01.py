"""C01: rewriting edits bytes exactly like editing the assembly listing."""
from .. import oracles
from . import rwbase

PROP = "C01"
LEVEL = "exploration"
TECHNIQUE = "reference-model monitor: listing-splice model vs bytes of the rewritten module"
RULE = (
    "seeded rewrite scenarios (module of 1-14 blocks over 1-3 sections and "
    "1-3 intervals each, 5 ISA/format pairs (x86-64 ELF/PE, IA32 PE, ARM64 ELF, big-endian MIPS32 ELF), 1-16 insert/replace/delete/"
    "delete_function edits at position classes start/mid/before-terminator/"
    "end, registered in shuffled order) are applied by the real "
    "RewritingContext; every original interval's bytes are compared with the "
    "edited listing and every patch marker must occur exactly once. "
    "non-trivial = apply() returned, at least one edit, at least one "
    "interval compared; distinct = distinct shape signatures (ISA/format + "
    "multiset of edit kind x position class x block terminator x patch end)."
    " 20% of the scenarios run through PassManager (two passes),"
    " offset-0 insertions also through AllFunctionsScope"
    " (ENTRY/ANYWHERE); modules include leading uncovered bytes,"
    " uninitialised tails, syscall terminators, symbolic"
    " memory-indirect transfers; patches include temporary labels,"
    " inline data, data for other sections, '.balign 1',"
    " operand addends, ARM64 literal loads; 12% of the modules hold one"
    " or two zero-sized code blocks (left by an earlier rewrite), with"
    " edits placed around them; 12% of the x86-64 patches are written in"
    " Intel syntax; patches may name labels of patches applied earlier;"
    " 12% of the IRs hold a second module the rewrite is not about (a twin"
    " with the same symbol/section/function names, or an unrelated module"
    " of any ISA) whose facets (here: bytes) must come out unchanged;"
    " label-only contents for another section are an expected refusal."
    " 1% of the modules have 30-89 code blocks."
)
ASSUMPTIONS = [
    "vocabulary byte table (tools/selftest_vocab.py) matches LLVM-MC and capstone",
    "overlapping blocks are not edit targets; big-endian MIPS32 ELF modules (8%) treat a transfer and its delay-slot nop as one item, so no edit lands between them",
    "AssertionError for a modification placed after a deletion that consumed the rest of its block is a documented loud refusal (counted, not judged)",
]
BUDGET = {"quick": (6000, 40), "thorough": (250000, 540)}
REQUIRED_COUNTERS = ["applies", "bytes_compared", "markers_checked"]

def gen_case(rng, tier, index):
    return rwbase.gen_case(rng, tier, index, mips_p=0.08, big_p=0.01)


def run_case(case):
    a = rwbase.analyze(case)
    if a.skip is None:
        v, c = oracles.check_bytes(a.run, a.lst, a.ob, a.exp_bytes)
        a.viol += v
        a.ctr.update(c)
    rwbase.bystander(a, PROP)
    return rwbase.result(a)
