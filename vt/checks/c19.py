"""C19: delete_symbol removes every trace of the symbol, and only that."""
import io
import random
import uuid as uuidlib

import gtirb

from .. import irsan

PROP = "C19"
LEVEL = "exploration"
TECHNIQUE = "reference-model monitor: dict model of the nine symbol-bearing tables computed from the pre-state vs the module after apply(), plus a generic aux-data walker and a protobuf round trip"
RULE = (
    "ELF and PE modules with 3-8 symbols, each placed in a random subset of "
    "{elfSymbolInfo, elfSymbolTabIdxInfo, elfSymbolVersions (defined/needed, "
    "shared and unshared ids and libraries, hidden), functionNames, PE "
    "import/export lists, symbolForwarding key/value, CFI personality/LSDA/"
    "other directive, SymAddrConst in code and data, SymAddrAddr}; 1-6 "
    "symbols are deleted in one context with random force flags (also the "
    "same symbol twice with different flags). Outcome (SymbolUsesRemaining"
    "Error iff an unforced symbol still has expression uses) and, on "
    "success, every table, the symbol set, the expressions, the CFI "
    "directives, version definitions/requirements and serializability are "
    "compared with the model. non-trivial = >=1 symbol deleted or refusal "
    "judged; distinct = (format, multiset of table memberships of deleted "
    "symbols, force pattern)."
    " A third of the cases delete through a Pass run by PassManager; a"
    " quarter of the modules contain no code block; version"
    " definitions may inherit from another definition."
)
ASSUMPTIONS = [
    "a version definition is the base definition iff bit VER_FLG_BASE of its flags is set (ELF gABI: vd_flags is a bit mask)",
    "state after a refused deletion is not judged beyond the exception type",
]
BUDGET = {"quick": (10000, 35), "thorough": (300000, 480)}
REQUIRED_COUNTERS = ["deletions_checked", "refusals_checked",
                     "table_comparisons"]
NULL = uuidlib.UUID(int=0)
PLACES = ["info", "tabidx", "ver-def", "ver-need", "fname", "import",
          "export", "fwd-key", "fwd-val", "cfi-pers", "cfi-lsda", "cfi-other",
          "expr-code", "expr-data", "expr-addr"]


def gen_case(rng, tier, index):
    fmt = rng.choice(["elf", "elf", "pe"])
    ns = rng.randrange(3, 9)
    syms = []
    for i in range(ns):
        places = [p for p in PLACES if rng.random() < 0.3]
        if fmt == "elf":
            places = [p for p in places if p not in ("import", "export")]
        else:
            places = [p for p in places
                      if p not in ("info", "tabidx", "ver-def", "ver-need")]
        syms.append({"name": f"s{i}", "extern": rng.random() < 0.4,
                     "places": places, "verid": rng.randrange(2, 6),
                     "lib": rng.choice(["liba", "libb"]),
                     "hidden": rng.random() < 0.3,
                     "fwd": rng.randrange(ns)})
    ndel = rng.randrange(1, min(6, ns) + 1)
    dels = [[rng.randrange(ns), rng.random() < 0.6] for _ in range(ndel)]
    if rng.random() < 0.2:
        dels.append([dels[0][0], not dels[0][1]])
    r2 = random.Random(f"c19-extra:{index}:{ns}:{ndel}")
    for sd in syms:
        # control flow that reaches an extern without any expression naming
        # it (an indirect call the disassembler resolved): an edge to its
        # proxy
        sd["edge"] = sd["extern"] and r2.random() < 0.4
    return {"fmt": fmt, "syms": syms, "dels": dels,
            # the retargeted symbol may be one that a symbol difference
            # names (retargeting those is refused)
            "retarget_any": r2.random() < 0.4,
            "base_flags": r2.choice([1, 1, 1, 3, 5]),
            "other_flags": r2.choice([0, 0, 0, 2, 4]),
            "extra_def": rng.random() < 0.5, "extra_need": rng.random() < 0.5,
            "driver": rng.choice(["ctx", "ctx", "passes"]),
            # the uses of one deleted symbol are first retargeted to a
            # surviving symbol, in the same context
            "retarget": rng.random() < 0.2,
            "data_only": rng.random() < 0.25}


def exhaustive(tier):
    if tier != "thorough":
        return
    import itertools
    places = ["info", "ver-def", "ver-need", "fname", "fwd-key", "fwd-val",
              "cfi-pers", "cfi-other", "expr-code", "expr-addr"]
    for r in range(0, len(places) + 1):
        for sub in itertools.combinations(places, r):
            for force in (False, True):
                syms = [{"name": "s0", "extern": False, "places": list(sub),
                         "verid": 2, "lib": "liba", "hidden": False,
                         "fwd": 1},
                        {"name": "s1", "extern": True, "places": ["info",
                         "ver-need", "fwd-val", "expr-data"], "verid": 2,
                         "lib": "liba", "hidden": False, "fwd": 0},
                        {"name": "s2", "extern": False, "places": ["ver-def"],
                         "verid": 3, "lib": "libb", "hidden": True,
                         "fwd": 2}]
                yield {"fmt": "elf", "syms": syms, "dels": [[0, force]],
                       "extra_def": True, "extra_need": True}


def build(case):
    from gtirb_test_helpers import create_test_module
    fmt = {"elf": gtirb.Module.FileFormat.ELF,
           "pe": gtirb.Module.FileFormat.PE}[case["fmt"]]
    ir, m = create_test_module(fmt, gtirb.Module.ISA.X64, ["DYN"])
    sec = gtirb.Section(name=".text")
    sec.module = m
    n = len(case["syms"])
    bi = gtirb.ByteInterval(contents=bytes(16 * n + 16), address=0x1000)
    bi.section = sec
    # (a module without any code - a table of pointers, say - is rewritten
    # like any other)
    code = (gtirb.DataBlock if case.get("data_only") else gtirb.CodeBlock)(
        offset=0, size=8 * n + 8)
    code.byte_interval = bi
    data = gtirb.DataBlock(offset=8 * n + 8, size=8 * n + 8)
    data.byte_interval = bi
    syms = []
    for i, sd in enumerate(case["syms"]):
        if sd["extern"]:
            p = gtirb.ProxyBlock()
            m.proxies.add(p)
            s = gtirb.Symbol(sd["name"], payload=p)
            if sd.get("edge") and isinstance(code, gtirb.CodeBlock):
                ir.cfg.add(gtirb.Edge(code, p, gtirb.Edge.Label(
                    gtirb.Edge.Type.Call, conditional=False, direct=False)))
        else:
            s = gtirb.Symbol(sd["name"], payload=code if i % 2 else data)
        s.module = m
        syms.append(s)
    model = {"info": {}, "tabidx": {}, "entries": {}, "fname": {},
             "import": [], "export": [], "fwd": {}, "cfi": [], "exprs": {}}
    defs, needed, entries = {}, {}, {}
    if case["fmt"] == "elf":
        # vd_flags is a bit mask (VER_FLG_BASE 1, VER_FLG_WEAK 2,
        # VER_FLG_INFO 4): the base definition is the one with bit 0 set
        defs[1] = (["libself.so"], case.get("base_flags", 1))
        if case["extra_def"]:
            defs[9] = (["UNUSED_DEF"], case.get("other_flags", 0))
        if case["extra_need"]:
            needed.setdefault("libz", {})[10] = "UNUSED_NEED"
        m.aux_data["elfSymbolVersions"] = gtirb.AuxData(
            (defs, needed, entries),
            "tuple<mapping<uint16_t,tuple<sequence<string>,uint16_t>>,"
            "mapping<string,mapping<uint16_t,string>>,"
            "mapping<UUID,tuple<uint16_t,bool>>>")
    cfi = {}
    cfi_list = [(".cfi_startproc", [], NULL)]
    cfi[gtirb.Offset(code, 0)] = cfi_list
    for i, (sd, s) in enumerate(zip(case["syms"], syms)):
        for p in sd["places"]:
            if p == "info":
                m.aux_data["elfSymbolInfo"].data[s] = (
                    0, "FUNC", "GLOBAL", "DEFAULT", i)
                model["info"][i] = True
            elif p == "tabidx":
                m.aux_data["elfSymbolTabIdxInfo"].data[s] = [(".symtab", i)]
                model["tabidx"][i] = True
            elif p == "ver-def":
                vid = sd["verid"]
                if any(vid in v for v in needed.values()):
                    vid += 20
                # every second definition inherits from the one defined
                # before it (its name list continues with the parent's name)
                parents = []
                older = [v for k, v in defs.items() if not v[1] & 1 and k != vid]
                if older and vid % 2 == 0:
                    parents = [older[-1][0][0]]
                defs.setdefault(vid, ([f"VER_{vid}"] + parents,
                                      case.get("other_flags", 0)))
                entries[s] = (vid, sd["hidden"])
                model["entries"][i] = vid
            elif p == "ver-need":
                if s in entries:
                    continue
                vid = sd["verid"] + 10
                if vid in defs:
                    vid += 20
                needed.setdefault(sd["lib"], {})[vid] = f"NEED_{vid}"
                # the same id may only belong to one library
                for lib, vs in needed.items():
                    if lib != sd["lib"] and vid in vs:
                        del needed[sd["lib"]][vid]
                        if not needed[sd["lib"]]:
                            del needed[sd["lib"]]
                        break
                entries[s] = (vid, sd["hidden"])
                model["entries"][i] = vid
            elif p == "fname":
                fu = uuidlib.UUID(int=1000 + i)
                m.aux_data["functionNames"].data[fu] = s
                model["fname"][i] = fu
            elif p == "import":
                m.aux_data["peImportedSymbols"].data.append(s)
                model["import"].append(i)
            elif p == "export":
                m.aux_data["peExportedSymbols"].data.append(s)
                model["export"].append(i)
            elif p == "fwd-key":
                m.aux_data["symbolForwarding"].data[s] = syms[sd["fwd"]]
                model["fwd"][i] = sd["fwd"]
            elif p == "fwd-val":
                k = syms[(i + 1) % n]
                if k not in m.aux_data["symbolForwarding"].data:
                    m.aux_data["symbolForwarding"].data[k] = s
                    model["fwd"][(i + 1) % n] = i
            elif p in ("cfi-pers", "cfi-lsda", "cfi-other"):
                d = {"cfi-pers": (".cfi_personality", [0x9B]),
                     "cfi-lsda": (".cfi_lsda", [0x1B]),
                     "cfi-other": (".cfi_undefined", [3])}[p]
                cfi_list.append((d[0], list(d[1]), s))
                model["cfi"].append((d[0], list(d[1]), i))
            elif p == "expr-code":
                bi.symbolic_expressions[8 * i] = gtirb.SymAddrConst(
                    4, s, set())
                model["exprs"][8 * i] = (i,)
            elif p == "expr-data":
                bi.symbolic_expressions[8 * n + 8 + 8 * i] = \
                    gtirb.SymAddrConst(0, s, set())
                model["exprs"][8 * n + 8 + 8 * i] = (i,)
            elif p == "expr-addr":
                o = syms[(i + 2) % n]
                bi.symbolic_expressions[8 * i + 4] = gtirb.SymAddrAddr(
                    1, 0, s, o, set())
                model["exprs"][8 * i + 4] = (i, (i + 2) % n)
    cfi[gtirb.Offset(code, code.size)] = [(".cfi_endproc", [], NULL)]
    m.aux_data["cfiDirectives"].data.update(cfi)
    model["defs"] = {k: v for k, v in defs.items()}
    model["needed"] = {l: dict(v) for l, v in needed.items()}
    model["entries_full"] = {i: entries[s] for i, s in enumerate(syms)
                             if s in entries}
    return ir, m, bi, code, syms, model


def run_case(case):
    from gtirb_rewriting import RewritingContext
    from gtirb_rewriting._modify.delete_symbols import \
        SymbolUsesRemainingError
    viol = []
    ctr = {"deletions_checked": 0, "refusals_checked": 0,
           "table_comparisons": 0}
    ir, m, bi, code, syms, model = build(case)
    n = len(syms)
    force = {}
    for i, f in case["dels"]:
        force[i] = f and force.get(i, True)
    # retarget first?  (not for symbols in symbol-minus-symbol expressions:
    # retargeting those is documented as not implemented)
    ret = None
    ret_addr = False
    if case.get("retarget"):
        in_addr = {i for ss in model["exprs"].values() if len(ss) > 1
                   for i in ss}
        cand_i = [i for i in sorted(force)
                  if i not in in_addr or case.get("retarget_any")]
        cand_j = [j for j in range(n) if j not in force]
        if cand_i and cand_j:
            ret = (cand_i[0], cand_j[0])
            i_, j_ = ret
            ret_addr = i_ in in_addr
            # (a symbol difference is left as it is)
            model["exprs"] = {o: tuple(j_ if x == i_ and len(ss) == 1
                                       else x for x in ss)
                              for o, ss in model["exprs"].items()}
            model["cfi"] = [(a, b, j_ if x == i_ else x)
                            for a, b, x in model["cfi"]]
            model["fwd"] = {k: (j_ if v == i_ else v)
                            for k, v in model["fwd"].items()}
            ctr["retarget_then_delete"] = 1

    def request(rctx):
        if ret is not None:
            rctx.retarget_symbol_uses(syms[ret[0]], syms[ret[1]])
        for i, f in case["dels"]:
            rctx.delete_symbol(syms[i], force=f)
    if case.get("driver") == "passes":
        from gtirb_rewriting import Pass, PassManager

        class Deleter(Pass):
            def begin_module(self, module, functions, rctx):
                if module is m:
                    request(rctx)
        pm = PassManager()
        pm.add(Deleter())

        class _Ctx:
            @staticmethod
            def apply():
                pm.run(ir)
        ctx = _Ctx
        ctr["through_passmanager"] = 1
    else:
        ctx = RewritingContext(m, [])
        request(ctx)
    dele = set(force)
    # expected outcome
    uses = {i: [o for o, ss in model["exprs"].items() if i in ss]
            for i in dele}
    refuse = any(uses[i] and not force[i] for i in dele)
    exc = None
    try:
        ctx.apply()
    except SymbolUsesRemainingError as x:
        exc = x
    except Exception as x:  # noqa
        if ret_addr and isinstance(x, NotImplementedError):
            # the documented refusal of the retarget request; nothing was
            # deleted quietly
            ctr["retarget_of_symbol_difference_refused"] = 1
            return {"sig": None, "violations": viol, "counters": ctr}
        viol.append({"key": f"delete:raises-{type(x).__name__}",
                     "msg": repr(x)[:300]})
        return {"sig": None, "violations": viol, "counters": ctr}
    memb = sorted(",".join(sorted(case["syms"][i]["places"])) for i in dele)
    sig = f"{case['fmt']}:" + "|".join(memb)[:200] + ":" + "".join(
        "F" if force[i] else "n" for i in sorted(dele))
    if refuse:
        ctr["refusals_checked"] += 1
        if exc is None:
            viol.append({"key": "delete:uses-remaining-not-refused",
                         "msg": f"{uses}"})
        elif exc.symbol not in [syms[i] for i in dele
                                if uses[i] and not force[i]]:
            viol.append({"key": "delete:refusal-names-wrong-symbol",
                         "msg": exc.symbol.name})
        return {"sig": sig + ":refused", "violations": viol,
                "counters": ctr}
    if exc is not None:
        viol.append({"key": "delete:refused-without-unforced-uses",
                     "msg": str(exc)})
        return {"sig": sig, "violations": viol, "counters": ctr}
    ctr["deletions_checked"] += len(dele)

    def cmp(name, got, want):
        ctr["table_comparisons"] += 1
        if got != want:
            viol.append({"key": f"delete:{name}-differs",
                         "msg": f"got {got} want {want}"})
    idx = {id(s): i for i, s in enumerate(syms)}
    cmp("module-symbols", sorted(idx[id(s)] for s in m.symbols),
        sorted(set(range(n)) - dele))
    for i in dele:
        if syms[i].module is not None:
            viol.append({"key": "delete:symbol-still-has-module",
                         "msg": syms[i].name})
    if case["fmt"] == "elf":
        cmp("elfSymbolInfo",
            sorted(idx[id(s)] for s in m.aux_data["elfSymbolInfo"].data),
            sorted(set(model["info"]) - dele))
        cmp("elfSymbolTabIdxInfo",
            sorted(idx[id(s)] for s in
                   m.aux_data["elfSymbolTabIdxInfo"].data),
            sorted(set(model["tabidx"]) - dele))
        defs, needed, entries = m.aux_data["elfSymbolVersions"].data
        want_entries = {i: v for i, v in model["entries_full"].items()
                        if i not in dele}
        cmp("version-entries", {idx[id(s)]: v for s, v in entries.items()},
            want_entries)
        keep = {v[0] for v in want_entries.values()}
        want_defs = {k: v for k, v in model["defs"].items()
                     if k in keep or v[1] & 1}
        cmp("version-definitions", dict(defs), want_defs)
        want_need = {}
        for lib, vs in model["needed"].items():
            vs2 = {k: v for k, v in vs.items() if k in keep}
            if vs2:
                want_need[lib] = vs2
        cmp("version-requirements", {l: dict(v) for l, v in needed.items()},
            want_need)
    else:
        cmp("peImportedSymbols",
            [idx[id(s)] for s in m.aux_data["peImportedSymbols"].data],
            [i for i in model["import"] if i not in dele])
        cmp("peExportedSymbols",
            [idx[id(s)] for s in m.aux_data["peExportedSymbols"].data],
            [i for i in model["export"] if i not in dele])
    cmp("functionNames",
        {fu: idx[id(s)] for fu, s in m.aux_data["functionNames"].data.items()},
        {fu: i for i, fu in model["fname"].items() if i not in dele})
    cmp("symbolForwarding",
        {idx[id(k)]: idx[id(v)] for k, v in
         m.aux_data["symbolForwarding"].data.items()},
        {k: v for k, v in model["fwd"].items()
         if k not in dele and v not in dele})
    got_cfi = []
    for off, dl in m.aux_data["cfiDirectives"].data.items():
        for d in dl:
            if d[0] in (".cfi_startproc", ".cfi_endproc"):
                continue
            got_cfi.append((d[0], list(d[1]),
                            idx[id(d[2])] if isinstance(d[2], gtirb.Symbol)
                            else ("NULL" if d[2] == NULL else "UUID")))
    want_cfi = []
    for name, args, i in model["cfi"]:
        if i in dele:
            want_cfi.append((name, [0xFF] if name in (
                ".cfi_personality", ".cfi_lsda") else args, "NULL"))
        else:
            want_cfi.append((name, args, i))
    cmp("cfiDirectives", got_cfi, want_cfi)
    cmp("expressions", sorted(bi.symbolic_expressions),
        sorted(o for o, ss in model["exprs"].items()
               if not (set(ss) & dele)))
    for o, e in bi.symbolic_expressions.items():
        if [idx[id(s)] for s in e.symbols] != list(model["exprs"][o]):
            viol.append({"key": "delete:expression-changed", "msg": str(o)})
    # generic walker: no trace of a deleted symbol anywhere
    dead = {id(syms[i]) for i in dele}

    def walk(v, table):
        if isinstance(v, gtirb.Symbol):
            if id(v) in dead:
                viol.append({"key": f"delete:trace-left-in:{table}",
                             "msg": v.name})
            return
        if isinstance(v, gtirb.Offset):
            walk(v.element_id, table)
            return
        if isinstance(v, (str, bytes, int, float, uuidlib.UUID,
                          gtirb.Node)) or v is None:
            return
        if hasattr(v, "items"):
            for k, x in v.items():
                walk(k, table)
                walk(x, table)
        elif isinstance(v, (list, tuple, set, frozenset)):
            for x in v:
                walk(x, table)
    for name, t in m.aux_data.items():
        walk(t.data, name)
    for item in irsan.sanitize(m, None, roundtrip=True):
        viol.append({"key": "delete:" + item[0], "msg": item[1]})
    return {"sig": sig, "violations": viol, "counters": ctr}
