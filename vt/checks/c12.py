"""C12: assembler output: bytes, blocks and CFG match the assembly text."""
import random

import gtirb

from .. import dwarfref, irview, vocab

PROP = "C12"
LEVEL = "exploration"
TECHNIQUE = "reference-model monitor: token-level model of the program (hand-verified encodings, label positions, expected edges/expressions) plus an independent capstone decode vs Assembler.Result"
RULE = (
    "programs of 1-40 lines drawn from {ordinary, jmp, jcc, call, ret, "
    "indirect jmp/call, global and temporary labels, .byte/.short/.long/"
    ".quad (numbers and symbols)/.zero/.string/.ascii/.uleb128/.sleb128/"
    ".align, section switches, CFI directives} for X64 (AT&T and Intel), "
    "IA32, ARM64, MIPS32, ELF and PE, with trivially_unreachable / "
    "implicit_cfi_procedure / allow_undef_symbols on and off, biased to "
    "label-after-call-after-.byte interactions, .align between labels, "
    "empty label groups and data-only sections. Judged: section bytes vs "
    "the encoding table and capstone; blocks tile the data in order with at "
    "most one empty block at the end; every control transfer ends its block "
    "with exactly the edges its kind demands; labels resolve to their "
    "position on the block starting there; data-only blocks without "
    "incoming edges are DataBlocks and everything else CodeBlocks; one "
    "expression per symbolic operand with symbol identity, addend, "
    "attributes and size; CFI directive table positions. non-trivial = "
    "assembled and >=1 instruction or datum compared; distinct = (config, "
    "multiset of line kinds)."
)
RULE += (
    " One case in 40 is a form the assembler must refuse (variant on one side of a symbol difference, branch target with offset, symbol minus constant, ...): UnsupportedAssemblyError, never a result;"
    " CFI directives standing at one address (separated by labels) must come out in source order;"
    " MIPS direct calls also as bal / bltzal."
)
ASSUMPTIONS = [
    "encoding table verified by tools/selftest_vocab.py; MIPS branches carry their assembler-filled delay-slot nop",
    "the exact block partition is not prescribed beyond the stated invariants",
]
BUDGET = {"quick": (6000, 40), "thorough": (150000, 480)}
REQUIRED_COUNTERS = ["programs_assembled", "instructions_compared",
                     "edges_compared", "expressions_compared",
                     "labels_compared"]

CONFIGS = [("x64", "elf"), ("x64", "elf"), ("x64", "pe"), ("ia32", "pe"),
           ("arm64", "elf"), ("mips32", "elf")]
ORD = ["nop", "mov_rr", "xor", "add"]
ORDX = ORD + ["push_rax", "pop_rax", "push_rbx", "pop_rbx"]
SECS = {"elf": [".data", ".rodata"], "pe": [".data", ".rdata"]}
# a second executable section
EXEC2 = {"elf": ".text.cold", "pe": ".cold"}


# forms the assembler must refuse (UnsupportedAssemblyError), never turn into
# something else: {isa: [(name, text with {a} {b})]}
REFUSED_FORMS = {
    "x64": [
        ("variant-left-of-difference", ".quad {a}@GOTPCREL - {b}"),
        ("variant-right-of-difference", ".long {a} - {b}@GOTPCREL"),
        ("variant-left-of-difference", ".long {a}@PLT - {b}"),
        ("variant-both-sides-of-difference", ".long {a}@GOT - {b}@GOT"),
        ("branch-target-with-offset", "jmp {a}+4"),
        ("branch-target-with-offset", "call {a}+8"),
        ("branch-target-with-offset", "jne {a}+1"),
        ("symbol-minus-constant", "movq {a}-8(%rip), %rax"),
        ("sum-of-symbols", ".long {a}+{b}"),
        ("scaled-symbol", ".long {a}*2"),
        ("difference-plus-constant", ".quad {a} - {b} + 4"),
    ],
    "arm64": [
        ("branch-target-with-offset", "b {a}+4"),
        ("branch-target-with-offset", "bl {a}+8"),
        ("branch-target-with-offset", "b.eq {a}+4"),
        ("branch-target-with-offset", "cbz x0, {a}+4"),
        ("branch-target-with-offset", "tbz x0, #1, {a}+4"),
        ("symbol-minus-constant", "adrp x0, {a}-8"),
    ],
}


def gen_case(rng, tier, index, programs_only=False):
    if index % 40 == 39 and not programs_only:
        isa = rng.choice(["x64", "x64", "arm64"])
        name, text = rng.choice(REFUSED_FORMS[isa])
        pool = ["msym_code", "msym_data", "mext", "here"]
        return {"w": "refuse", "isa": isa, "fmt": "elf",
                "pie": rng.random() < 0.5, "bintype": ["DYN"],
                "form": name, "text": text,
                "a": rng.choice(pool), "b": rng.choice(pool[:3]),
                "before": rng.randrange(0, 3), "after": rng.randrange(0, 3)}
    isa, fmt = rng.choice(CONFIGS)
    c = {"isa": isa, "fmt": fmt, "pie": fmt == "elf" and rng.random() < 0.5,
         "intel": isa == "x64" and rng.random() < 0.3,
         "unreachable": rng.random() < 0.3,
         "implicit_cfi": rng.random() < 0.3,
         "allow_undef": rng.random() < 0.3, "lines": [],
         "bintype": rng.choice([["DYN"], ["DYN"], ["DYN", "PIE"],
                                ["DYN", "SHARED"], ["PIE", "DYN"]])}
    v = {k: e for k, e in vocab.VOCAB[isa].items() if not e.get("rw_only")}
    n = rng.choice([1, 2, 3, 5, 8, 12, 20, 40])
    labels = []
    lines = c["lines"]
    nlab = 0
    planned = [f"lab{i}" for i in range(rng.randrange(0, 6))]
    in_text = True
    cur_sec = ".text"
    cfi_open = False
    ordk = [k for k in (ORDX if isa in ("x64", "ia32", "arm64") else ORD)
            if k in v]

    def target(code_only):
        pool = list(planned) + ["msym_code", "mext"]
        if not code_only:
            pool += ["msym_data"]
        if c["allow_undef"]:
            pool += ["undef0", "undef1"]
        return rng.choice(pool)
    for _ in range(n):
        r = rng.random()
        if not in_text:
            r = 0.62 + r * 0.38  # only data-ish lines outside .text
        if in_text and rng.random() < 0.03:
            # a byte run that control flows into, cut by an alignment
            lines.append({"k": "jne" if "jne" in v else "call",
                          "t": target(True)})
            lines.append({"d": "byte", "vals": [rng.randrange(256)
                                                for _ in range(
                                                    rng.randrange(1, 3))]})
            lines.append({"d": "align", "n": rng.choice([2, 4, 8])})
            lines.append({"d": "byte", "vals": [rng.randrange(256)
                                                for _ in range(
                                                    rng.randrange(1, 3))]})
            continue
        if r < 0.22:
            lines.append({"k": rng.choice(ordk)})
        elif r < 0.28 and "lea_sym" in v:
            lines.append({"k": rng.choice(
                [k for k in ("lea_sym", "mov_sym", "cmp_sym", "movi_sym",
                             "addlo_sym", "ldrlo_sym", "lui_hi", "addiu_lo",
                             "ldr_lit", "ldrsw_lit")
                 if k in v] + ([k for k in v if k.startswith("v_")]
                               if fmt == "elf" and not c["intel"] else [])),
                "t": target(False)})
            if rng.random() < 0.35:
                lines[-1]["add"] = rng.choice([4, 8, 16, 24])
        elif r < 0.34 and "jmp" in v:
            lines.append({"k": "jmp", "t": target(True)})
        elif r < 0.39 and "jne" in v:
            lines.append({"k": "jne", "t": target(True)})
        elif r < 0.45:
            lines.append({"k": rng.choice(["call", "bal", "bltzal"])
                          if "bal" in v and rng.random() < 0.4 else "call",
                          "t": target(True)})
        elif r < 0.49 and "ret" in v:
            lines.append({"k": "ret"})
        elif r < 0.52:
            lines.append({"k": rng.choice(["ijmp", "icall"])})
        elif r < 0.62 and nlab < len(planned):
            lines.append({"l": planned[nlab]})
            nlab += 1
            if rng.random() < 0.2 and nlab < len(planned):
                lines.append({"l": planned[nlab]})
                nlab += 1
        elif r < 0.72:
            lines.append({"d": "byte", "vals": [rng.randrange(256)
                                                for _ in range(
                                                    rng.randrange(1, 4))]})
        elif r < 0.76:
            lines.append({"d": rng.choice(["short", "long", "quad"]),
                          "vals": [rng.randrange(1 << 15)]})
        elif r < 0.80:
            lines.append({"d": rng.choice(["quadsym", "longsym"]),
                          "t": target(False),
                          "add": rng.choice([0, 0, 4, 12])})
        elif r < 0.83:
            lines.append({"d": "zero", "n": rng.randrange(1, 6)})
        elif r < 0.86:
            lines.append({"d": rng.choice(["string", "ascii"]),
                          "s": rng.choice(["a", "hi", "xyz"])})
            if rng.random() < 0.06:
                # a directive that emits nothing (.ascii "") or a lone NUL
                lines[-1]["s"] = ""
        elif r < 0.89:
            if in_text:
                lines.append({"d": "zero", "n": 1})
            else:
                lines.append({"d": rng.choice(["uleb", "sleb"]),
                              "t": "msym_code", "t2": "msym_data"})
        elif r < 0.92:
            lines.append({"d": "align", "n": rng.choice([2, 4, 8, 16])})
        elif r < 0.96:
            if in_text and cur_sec == ".text":
                if not cfi_open and not c["implicit_cfi"] and \
                        rng.random() < 0.25:
                    cur_sec = EXEC2[fmt]
                    lines.append({"sec": cur_sec})
                else:
                    cur_sec = rng.choice(SECS[fmt])
                    lines.append({"sec": cur_sec})
                    in_text = False
            else:
                lines.append({"sec": ".text"})
                cur_sec = ".text"
                in_text = True
        elif in_text and cur_sec == ".text" and fmt == "elf" and \
                not c["implicit_cfi"]:
            if not cfi_open:
                lines.append({"cfi": [".cfi_startproc", []]})
                cfi_open = True
            elif rng.random() < 0.5:
                lines.append({"cfi": [".cfi_def_cfa_offset",
                                      [rng.randrange(8, 64)]]})
                if rng.random() < 0.3 and nlab < len(planned):
                    # a second directive at the same address, behind a label
                    lines.append({"l": planned[nlab]})

                    nlab += 1
                    lines.append({"cfi": [".cfi_def_cfa_offset",
                                          [rng.randrange(8, 64)]]})
            else:
                lines.append({"cfi": [".cfi_endproc", []]})
                cfi_open = False
        elif in_text and c["implicit_cfi"] and fmt == "elf":
            sandwich = random.Random(
                f"sandwich:{index}:{len(lines)}").random() < 0.12
            if sandwich:
                # the directive stands between two empty strings (each is
                # its NUL, in a typed block of its own)
                lines.append({"d": "string", "s": ""})
            lines.append({"cfi": [".cfi_def_cfa_offset",
                                  [rng.randrange(8, 64)]]})
            if sandwich:
                lines.append({"d": "string", "s": ""})
                continue
            if rng.random() < 0.3 and nlab < len(planned):
                lines.append({"l": planned[nlab]})

                nlab += 1
                lines.append({"cfi": [".cfi_def_cfa_offset",
                                      [rng.randrange(8, 64)]]})
    if cfi_open:
        if not in_text:
            lines.append({"sec": ".text"})
        lines.append({"cfi": [".cfi_endproc", []]})
    # define remaining planned labels at the end so that all references are
    # defined (unless undefined symbols are allowed)
    if (not in_text or cur_sec != ".text") and nlab < len(planned):
        lines.append({"sec": ".text"})
    while nlab < len(planned):
        lines.append({"l": planned[nlab]})
        nlab += 1
        if rng.random() < 0.5:
            lines.append({"k": rng.choice(ordk)})
    return c


def render(c):
    isa = c["isa"]
    out = []
    be = isa == "mips32"
    for ln in c["lines"]:
        if "k" in ln:
            tgt = ln.get("t")
            if tgt is not None and ln.get("add"):
                tgt = f"{tgt}+{ln['add']}"
            out.append(vocab.asm_text(isa, ln["k"], tgt,
                                      ln.get("imm"), intel=c["intel"]))
        elif "l" in ln:
            out.append(ln["l"] + ":")
        elif "sec" in ln:
            name = ln["sec"]
            if name in (".text", ".data"):
                out.append(name)
            elif name in EXEC2.values():
                out.append(f'.section {name},"ax",@progbits'
                           if c["fmt"] == "elf" else f'.section {name},"xr"')
            elif c["fmt"] == "elf":
                out.append(f'.section {name},"a",@progbits')
            else:
                out.append(f'.section {name},"dr"')
        elif "cfi" in ln:
            out.append(ln["cfi"][0] + " " + ", ".join(
                str(a) for a in ln["cfi"][1]))
        else:
            d = ln["d"]
            if d in ("byte", "short", "long", "quad"):
                out.append(f".{d} " + ", ".join(str(x) for x in ln["vals"]))
            elif d in ("quadsym", "longsym"):
                t = ln["t"] + (f" + {ln['add']}" if ln["add"] else "")
                out.append(f".{d[:-3]} {t}")
            elif d == "zero":
                out.append(f".zero {ln['n']}")
            elif d in ("string", "ascii"):
                out.append(f'.{d} "{ln["s"]}"')
            elif d == "uleb":
                out.append(f".uleb128 {ln['t']} - {ln['t2']}")
            elif d == "sleb":
                out.append(f".sleb128 {ln['t']} - {ln['t2']}")
            elif d == "align":
                out.append(f".align {ln['n']}")
    return "\n".join(out) + "\n"


def model(c):
    """per section: bytes, tokens [(pos, kind, line)], labels {name: (sec,pos)}"""
    isa = c["isa"]
    order = "big" if isa == "mips32" else "little"
    secs = {".text": bytearray()}
    toks = {".text": []}
    labels = {}
    cfi = []
    cur = ".text"
    for ln in c["lines"]:
        buf = secs[cur]
        if "k" in ln:
            data = vocab.encode(isa, ln["k"], ln.get("imm"))
            if isa == "mips32" and len(data) == 8:
                # branch + assembler-filled delay-slot nop (a separate
                # instruction event, it starts the next block)
                toks[cur].append((len(buf), "I", ln, 4))
                toks[cur].append((len(buf) + 4, "I", {"k": "nop"}, 4))
            else:
                toks[cur].append((len(buf), "I", ln, len(data)))
            buf += data
        elif "l" in ln:
            labels[ln["l"]] = (cur, len(buf))
        elif "sec" in ln:
            cur = ln["sec"]
            secs.setdefault(cur, bytearray())
            toks.setdefault(cur, [])
        elif "cfi" in ln:
            cfi.append((cur, len(buf), ln["cfi"]))
        else:
            d = ln["d"]
            size = {"byte": 1, "short": 2, "long": 4, "quad": 8}
            if d in size:
                data = b"".join(x.to_bytes(size[d], order)
                                for x in ln["vals"])
            elif d in ("quadsym", "longsym"):
                data = bytes(8 if d == "quadsym" else 4)
            elif d == "zero":
                data = bytes(ln["n"])
            elif d == "string":
                data = ln["s"].encode() + b"\0"
            elif d == "ascii":
                data = ln["s"].encode()
            elif d in ("uleb", "sleb"):
                data = b"\0"
            elif d == "align":
                toks[cur].append((len(buf), "A", ln, 0))
                continue
            toks[cur].append((len(buf), "D", ln, len(data)))
            buf += data
    return secs, toks, labels, cfi


def target_module(c):
    from gtirb_test_helpers import create_test_module
    isa = {"x64": gtirb.Module.ISA.X64, "ia32": gtirb.Module.ISA.IA32,
           "arm64": gtirb.Module.ISA.ARM64,
           "mips32": gtirb.Module.ISA.MIPS32}[c["isa"]]
    fmt = {"elf": gtirb.Module.FileFormat.ELF,
           "pe": gtirb.Module.FileFormat.PE}[c["fmt"]]
    ir, m = create_test_module(
        fmt, isa, list(c.get("bintype") or ["DYN"]) if c["pie"]
        else ["EXEC"],
        byte_order=gtirb.Module.ByteOrder.Big if c["isa"] == "mips32"
        else None)
    sec = gtirb.Section(name=".text", flags={
        gtirb.Section.Flag.Executable, gtirb.Section.Flag.Readable,
        gtirb.Section.Flag.Loaded, gtirb.Section.Flag.Initialized})
    sec.module = m
    nop = vocab.NOP[c["isa"]]
    bi = gtirb.ByteInterval(contents=nop + bytes(4), address=0x1000)
    bi.section = sec
    code = gtirb.CodeBlock(offset=0, size=len(nop))
    code.byte_interval = bi
    data = gtirb.DataBlock(offset=len(nop), size=4)
    data.byte_interval = bi
    proxy = gtirb.ProxyBlock()
    m.proxies.add(proxy)
    syms = {}
    for name, ref in (("msym_code", code), ("msym_data", data),
                      ("mext", proxy)):
        s = gtirb.Symbol(name, payload=ref)
        s.module = m
        syms[name] = s
    return m, syms


def run_refuse(c):
    from gtirb_rewriting.assembler import (Assembler,
                                           UnsupportedAssemblyError)
    m, msyms = target_module(c)
    nop = vocab.asm_text(c["isa"], "nop")
    text = (nop + "\n") * c["before"] + "here:\n" + \
        c["text"].format(a=c["a"], b=c["b"]) + "\n" + \
        (nop + "\n") * c["after"]
    viol = []
    asm = Assembler(m)
    try:
        asm.assemble(text)
        asm.finalize()
        viol.append({"key": f"asm:unsupported-form-accepted:{c['form']}",
                     "msg": text})
    except UnsupportedAssemblyError:
        pass
    except Exception as exc:  # noqa
        viol.append({"key": f"asm:unsupported-form-raises-"
                            f"{type(exc).__name__}:{c['form']}",
                     "msg": f"{exc!r}\n{text}"[:600]})
    return {"sig": f"refuse:{c['isa']}:{c['form']}:{c['text'].split()[0]}",
            "violations": viol, "counters": {"refusal_probes": 1}}


def run_case(c):
    if c.get("w") == "refuse":
        return run_refuse(c)
    from gtirb_rewriting.assembler import Assembler
    from gtirb_rewriting.assembly import X86Syntax
    viol = []
    ctr = {"programs_assembled": 0, "instructions_compared": 0,
           "edges_compared": 0, "expressions_compared": 0,
           "labels_compared": 0, "blocks_checked": 0,
           "cfi_positions_compared": 0}
    isa = c["isa"]
    m, msyms = target_module(c)
    text = render(c)
    secs, toks, labels, cficfg = model(c)
    asm = Assembler(m, trivially_unreachable=c["unreachable"],
                    implicit_cfi_procedure=c["implicit_cfi"],
                    allow_undef_symbols=c["allow_undef"])
    try:
        asm.assemble(text, X86Syntax.INTEL if c["intel"] else X86Syntax.ATT)
        result = asm.finalize()
    except Exception as exc:  # noqa
        viol.append({"key": f"asm:raises-{type(exc).__name__}",
                     "msg": f"{exc!r}\n{text}"[:1500]})
        return {"sig": None, "violations": viol, "counters": ctr}
    ctr["programs_assembled"] = 1
    kinds = sorted({(ln.get("k") and vocab.VOCAB[isa][ln["k"]]["kind"]) or
                    ln.get("d") or ("label" if "l" in ln else
                                    "sec" if "sec" in ln else "cfi")
                    for ln in c["lines"]})
    sig = (f"{isa}-{c['fmt']}:{int(c['intel'])}{int(c['unreachable'])}"
           f"{int(c['implicit_cfi'])}{int(c['allow_undef'])}"
           f"{int(c['pie'])}:" + ",".join(kinds))
    # symbols defined by the result
    rsyms = {}
    for s in result.symbols:
        rsyms.setdefault(s.name, []).append(s)
    for name, ss in rsyms.items():
        if len(ss) > 1:
            viol.append({"key": "asm:duplicate-symbol", "msg": name})
    block_sec = {}
    for sname, sect in result.sections.items():
        for b in sect.blocks:
            block_sec[id(b)] = sname
    # sections, bytes, blocks
    for sname, want in secs.items():
        if sname not in result.sections:
            if want or toks[sname]:
                viol.append({"key": "asm:section-missing", "msg": sname})
            continue
        sect = result.sections[sname]
        if bytes(sect.data) != bytes(want):
            viol.append({"key": "asm:bytes-differ",
                         "msg": f"{sname}: {bytes(sect.data).hex()} != "
                                f"{bytes(want).hex()}\n{text}"[:1200]})
            continue
        pos = 0
        blocks = list(sect.blocks)
        for i, b in enumerate(blocks):
            ctr["blocks_checked"] += 1
            if b.offset != pos:
                viol.append({"key": "asm:blocks-do-not-tile",
                             "msg": f"{sname}: block {i} at {b.offset}, "
                                    f"expected {pos}"})
                break
            if b.size == 0 and i != len(blocks) - 1:
                viol.append({"key": "asm:empty-block-not-last",
                             "msg": f"{sname}: block {i}"})
            pos += b.size
        else:
            if pos != len(want):
                viol.append({"key": "asm:blocks-do-not-cover-data",
                             "msg": f"{sname}: {pos} != {len(want)}"})
    if viol:
        return {"sig": sig, "violations": viol, "counters": ctr}

    def block_at(sname, p, start_only=True):
        for b in result.sections[sname].blocks:
            if b.offset == p and (b.size or start_only):
                return b
        return None

    def block_containing(sname, p):
        for b in result.sections[sname].blocks:
            if b.offset <= p < b.offset + b.size:
                return b
        return None
    # capstone decode of instruction tokens
    md = irview.decoder(isa)
    for sname, tl in toks.items():
        sect = result.sections.get(sname)
        if sect is None:
            continue
        for (p, kind, ln, size) in tl:
            if kind != "I":
                continue
            ctr["instructions_compared"] += 1
            ins = list(md.disasm(bytes(sect.data[p:p + size]), 0))
            if not ins or ins[0].size != (4 if isa == "mips32" else size):
                viol.append({"key": "asm:capstone-disagrees",
                             "msg": f"{ln} at {p}"})
            b = block_containing(sname, p)
            if not isinstance(b, gtirb.CodeBlock):
                viol.append({"key": "asm:instruction-not-in-code-block",
                             "msg": f"{ln['k']} at {sname}+{p}"})
                continue
            e = vocab.VOCAB[isa][ln["k"]]
            if e["kind"] in ("jmp", "jcc", "call", "ret", "ijmp", "icall"):
                if b.offset + b.size != p + size:
                    viol.append({
                        "key": f"asm:control-transfer-not-last:{e['kind']}",
                        "msg": f"{ln['k']} at {p}, block ends "
                               f"{b.offset + b.size}"})
                    continue
                # expected edges
                nxt = block_at(sname, p + size)
                want = set()
                tname = ln.get("t")
                tgt = None
                if tname is not None:
                    if tname in labels:
                        ls, lp = labels[tname]
                        tgt = ("block", ls, lp)
                    elif tname in msyms:
                        tgt = ("obj", id(msyms[tname].referent))
                    else:
                        tgt = ("undef", tname)
                k = e["kind"]
                if k == "jmp":
                    want.add(("Branch", False, True, tgt))
                elif k == "jcc":
                    want.add(("Branch", True, True, tgt))
                    want.add(("Fallthrough", False, True, ("next",)))
                elif k == "call":
                    want.add(("Call", False, True, tgt))
                    want.add(("Fallthrough", False, True, ("next",)))
                elif k == "ret":
                    want.add(("Return", False, True, ("freshproxy",)))
                elif k == "ijmp":
                    want.add(("Branch", False, False, ("freshproxy",)))
                elif k == "icall":
                    want.add(("Call", False, False, ("freshproxy",)))
                    want.add(("Fallthrough", False, True, ("next",)))
                got = set()
                for edge in result.cfg.out_edges(b):
                    t = edge.target
                    if isinstance(t, gtirb.ProxyBlock):
                        named = [s for s in list(result.symbols) +
                                 list(msyms.values()) if s.referent is t]
                        if t in result.proxies and not named:
                            desc = ("freshproxy",)
                        elif any(s is msyms.get(s.name) for s in named):
                            desc = ("obj", id(t))
                        else:
                            desc = ("undef", named[0].name) if named \
                                else ("foreignproxy",)
                    elif nxt is not None and t is nxt and edge.label.type \
                            == gtirb.Edge.Type.Fallthrough:
                        desc = ("next",)
                    elif id(t) in block_sec:
                        desc = ("block", block_sec[id(t)], t.offset)
                    else:
                        desc = ("obj", id(t))
                    got.add((edge.label.type.name, bool(
                        edge.label.conditional), bool(edge.label.direct),
                        desc))
                ctr["edges_compared"] += len(want | got)
                if got != want:
                    viol.append({
                        "key": f"asm:edges-differ:{k}",
                        "msg": f"{ln} at {sname}+{p}: got {sorted(got, key=repr)} "
                               f"want {sorted(want, key=repr)}\n{text}"[:1500]})
    # blocks not ending in a control transfer: fallthrough to the next code
    # block and nothing else; data blocks have no edges at all
    term_end = set()
    for sname, tl in toks.items():
        for (p, kind, ln, size) in tl:
            if kind == "I" and vocab.VOCAB[isa][ln["k"]]["kind"] != "ord" \
                    and vocab.VOCAB[isa][ln["k"]]["kind"] != "halt":
                term_end.add((sname, p + size))
    for sname, sect in result.sections.items():
        blocks = list(sect.blocks)
        tl = toks.get(sname, [])
        for i, b in enumerate(blocks):
            outs = list(result.cfg.out_edges(b)) if isinstance(
                b, gtirb.CodeBlock) else []
            has_instr = any(kind == "I" and b.offset <= p < b.offset + b.size
                            for (p, kind, ln, size) in tl)
            if isinstance(b, gtirb.DataBlock):
                if has_instr:
                    viol.append({"key": "asm:instruction-in-data-block",
                                 "msg": f"{sname}+{b.offset}"})
                if any(True for _ in result.cfg.in_edges(b)) or any(
                        e for e in result.cfg if e.source is b):
                    viol.append({"key": "asm:data-block-with-edges",
                                 "msg": f"{sname}+{b.offset}"})
                continue
            if (sname, b.offset + b.size) in term_end and b.size:
                continue   # judged above
            nxt = blocks[i + 1] if i + 1 < len(blocks) else None
            want_ft = isinstance(nxt, gtirb.CodeBlock)
            ft = [e for e in outs
                  if e.label.type == gtirb.Edge.Type.Fallthrough]
            other = [e for e in outs
                     if e.label.type != gtirb.Edge.Type.Fallthrough]
            ctr["edges_compared"] += 1
            if other:
                viol.append({"key": "asm:non-terminator-block-has-edges",
                             "msg": f"{sname}+{b.offset}: "
                                    f"{[e.label.type.name for e in other]}"})
            if want_ft and has_instr and not (
                    len(ft) == 1 and ft[0].target is nxt):
                viol.append({
                    "key": "asm:missing-fallthrough-to-next-code-block",
                    "msg": f"{sname}+{b.offset}\n{text}"[:800]})
            # a .byte run that stayed code (control flows into it) and is
            # cut in two by an alignment directive: the second half is
            # flowed into as well, so it stays code and is linked
            if not has_instr and b.size and nxt is not None and any(
                    kind == "A" and p == b.offset + b.size
                    for (p, kind, ln, size) in tl) and \
                    all(kind != "D" or ln["d"] == "byte"
                        for (p, kind, ln, size) in tl
                        if b.offset <= p < nxt.offset + max(nxt.size, 1)) \
                    and not any(kind == "I" and nxt.offset <= p < nxt.offset
                                + nxt.size for (p, kind, ln, size) in tl) \
                    and nxt.size and not any(
                        lp == nxt.offset and ls == sname
                        for (ls, lp) in labels.values()):
                ctr["byte_runs_cut_by_align"] = ctr.get(
                    "byte_runs_cut_by_align", 0) + 1
                if not (isinstance(nxt, gtirb.CodeBlock) and len(ft) == 1
                        and ft[0].target is nxt):
                    viol.append({
                        "key": "asm:byte-run-cut-by-align-not-linked",
                        "msg": f"{sname}+{b.offset}\n{text}"[:800]})
            if not want_ft and ft:
                viol.append({"key": "asm:fallthrough-to-non-code",
                             "msg": f"{sname}+{b.offset}\n{text}"[:800]})
            # data-only block without incoming edges must be data
            if b.size and not has_instr:
                incoming = any(True for _ in result.cfg.in_edges(b))
                has_cfi = any(cs == sname and b.offset <= cp <= b.offset +
                              b.size for (cs, cp, _) in cficfg)
                first_exec = (i == 0 and gtirb.Section.Flag.Executable in
                              sect.flags and not c["unreachable"])
                if not incoming and not has_cfi and not first_exec:
                    viol.append({
                        "key": "asm:data-only-block-stays-code",
                        "msg": f"{sname}+{b.offset} size {b.size}\n"
                               f"{text}"[:800]})
    # labels
    for name, (ls, lp) in labels.items():
        ctr["labels_compared"] += 1
        ss = rsyms.get(name)
        if not ss:
            viol.append({"key": "asm:label-without-symbol", "msg": name})
            continue
        s = ss[0]
        r = s.referent
        if not isinstance(r, gtirb.ByteBlock) or id(r) not in block_sec:
            viol.append({"key": "asm:label-referent-not-a-result-block",
                         "msg": name})
            continue
        pos = r.offset + (r.size if s.at_end else 0)
        if block_sec[id(r)] != ls or pos != lp:
            viol.append({"key": "asm:label-position-differs",
                         "msg": f"{name}: {block_sec[id(r)]}+{pos} != "
                                f"{ls}+{lp}\n{text}"[:800]})
        elif s.at_end and lp != len(secs[ls]):
            viol.append({"key": "asm:label-at_end-although-not-last",
                         "msg": f"{name}\n{text}"[:800]})
    # expressions
    attr_plt = (isa in ("x64", "ia32") and c["fmt"] == "elf" and c["pie"])
    for sname, tl in toks.items():
        sect = result.sections.get(sname)
        if sect is None:
            continue
        want = {}
        for (p, kind, ln, size) in tl:
            if kind == "I" and ln.get("t"):
                e = vocab.VOCAB[isa][ln["k"]]
                off, sz = e["sym"]
                branch = e["kind"] in ("jmp", "jcc", "call")
                want[p + off] = (ln["t"], ln.get("add", 0), sz, branch,
                                 set(e["attrs"]))
            elif kind == "D" and ln["d"] in ("quadsym", "longsym"):
                want[p] = (ln["t"], ln["add"],
                           8 if ln["d"] == "quadsym" else 4, False, set())
            elif kind == "D" and ln["d"] in ("uleb", "sleb"):
                want[p] = ((ln["t"], ln["t2"]), 0, 1, False, set())
        got = sect.symbolic_expressions
        for off in sorted(set(want) | set(got)):
            ctr["expressions_compared"] += 1
            if off not in got:
                viol.append({"key": "asm:expression-missing",
                             "msg": f"{sname}+{off} {want[off]}"})
                continue
            if off not in want:
                viol.append({"key": "asm:expression-unexpected",
                             "msg": f"{sname}+{off} {got[off]}"})
                continue
            e = got[off]
            tname, add, sz, branch, op_attrs = want[off]
            if isinstance(tname, tuple):
                if not (isinstance(e, gtirb.SymAddrAddr) and
                        e.symbol1 is msyms[tname[0]] and
                        e.symbol2 is msyms[tname[1]] and e.scale == 1
                        and e.offset == 0):
                    viol.append({"key": "asm:leb128-expression-differs",
                                 "msg": str(e)})
                blk = block_at(sname, off)
                bt = sect.block_types.get(blk) if blk is not None else None
                if blk is None or blk.size != 1 or not isinstance(
                        blk, gtirb.DataBlock) or bt is None or \
                        not bt.value.endswith("leb128"):
                    viol.append({"key": "asm:leb128-not-own-typed-data-block",
                                 "msg": f"{sname}+{off}"})
                continue
            if not isinstance(e, gtirb.SymAddrConst):
                viol.append({"key": "asm:expression-kind", "msg": str(e)})
                continue
            if tname in msyms:
                ok = e.symbol is msyms[tname]
            elif tname in labels:
                ok = e.symbol is rsyms.get(tname, [None])[0]
            else:
                ok = e.symbol.name == tname and isinstance(
                    e.symbol.referent, gtirb.ProxyBlock) and \
                    e.symbol.referent in result.proxies
            if not ok:
                viol.append({"key": "asm:expression-wrong-symbol",
                             "msg": f"{sname}+{off}: {e.symbol.name} for "
                                    f"{tname}"})
            if e.offset != add:
                viol.append({"key": "asm:expression-addend",
                             "msg": f"{e.offset} != {add}"})
            is_proxy = isinstance(e.symbol.referent, gtirb.ProxyBlock)
            want_attrs = {"PLT"} if (attr_plt and branch and is_proxy) \
                else set(op_attrs)
            got_attrs = {a.name for a in e.attributes}
            if got_attrs != want_attrs:
                viol.append({"key": "asm:expression-attributes",
                             "msg": f"{sname}+{off}: {got_attrs} != "
                                    f"{want_attrs}"})
            if sect.symbolic_expression_sizes.get(off) != sz:
                viol.append({
                    "key": "asm:expression-size",
                    "msg": f"{sname}+{off}: "
                           f"{sect.symbolic_expression_sizes.get(off)} != "
                           f"{sz}"})
    # CFI directive positions
    if cficfg and c["fmt"] == "elf":
        table = result.create_cfi_directives()
        got = []
        for off, dl in table.items():
            b = off.element_id
            if id(b) not in block_sec:
                viol.append({"key": "asm:cfi-on-foreign-block", "msg": ""})
                continue
            for d in dl:
                got.append((block_sec[id(b)], b.offset + off.displacement,
                            d[0], list(d[1])))
        want = [(cs, cp, d[0], list(d[1])) for (cs, cp, d) in cficfg
                if not (c["implicit_cfi"] and d[0] in (".cfi_startproc",
                                                       ".cfi_endproc"))]
        ctr["cfi_positions_compared"] += len(want)
        if sorted(got) != sorted(want):
            viol.append({"key": "asm:cfi-directives-differ",
                         "msg": f"got {sorted(got)} want {sorted(want)}\n"
                                f"{text}"[:1200]})
        else:
            # ... and, where several stand at one address, in source order
            gseq = {}
            for off, dl in sorted(
                    ((o, d) for o, d in table.items()
                     if id(o.element_id) in block_sec),
                    key=lambda x: (block_sec[id(x[0].element_id)],
                                   x[0].element_id.offset + x[0].displacement,
                                   x[0].element_id.offset)):
                b = off.element_id
                for d in dl:
                    gseq.setdefault((block_sec[id(b)],
                                     b.offset + off.displacement),
                                    []).append((d[0], list(d[1])))
            wseq = {}
            for (cs, cp, d0, d1) in want:
                wseq.setdefault((cs, cp), []).append((d0, d1))
            for key_, w_ in wseq.items():
                if len(w_) > 1:
                    ctr["cfi_orders_compared"] = ctr.get(
                        "cfi_orders_compared", 0) + 1
                    if gseq.get(key_) != w_:
                        viol.append({
                            "key": "asm:cfi-directive-order-differs",
                            "msg": f"at {key_}: got {gseq.get(key_)} want "
                                   f"{w_}\n{text}"[:1200]})
                        break
    return {"sig": sig, "violations": viol, "counters": ctr}
