"""C07: each registered insertion lands exactly once, exactly where asked."""
import random
import re

import gtirb
import gtirb_functions

from .. import gen_rewrite, irbuild, irview, oracles, rewrite, vocab
from ..listing import Listing
from . import rwbase

PROP = "C07"
LEVEL = "exploration"
TECHNIQUE = "reference-model monitor: independent scope model evaluated on the listing (designated blocks, offsets, order) vs marker positions in the rewritten bytes and the InsertionContexts recorded by the patch callbacks"
RULE = (
    "generated modules (as C01, with and without function tables, "
    "interleaved function layouts, an entry point) and 1-4 passes with 1-5 "
    "registrations each: AllBlocksScope (ENTRY/EXIT/ANYWHERE, exclusion "
    "sets), AllFunctionsScope (ENTRY/EXIT x block position, name filters: "
    "literal, regex, MAIN_NAME, ENTRYPOINT_NAME), SingleBlockScope; driven "
    "through RewritingContext and through PassManager. Every application "
    "emits a marker instruction unique to (registration, block). The scope "
    "model turns the registrations into per-block insertions in "
    "registration order; the rewritten bytes must equal the edited listing "
    "(each marker exactly once, in the designated block, at the prescribed "
    "offset, same-location patches in registration order); ANYWHERE may "
    "alternatively sit on any instruction boundary not after the "
    "terminator; the InsertionContext of each callback must name the "
    "original block, offset and function. UnresolvableScopeError is "
    "expected for function scopes without function information. "
    "non-trivial = >=1 application compared; distinct = (driver, scope "
    "kinds x positions, function info)."
    " 25% of the RewritingContext cases hand over the caller's own"
    " Function objects after the function tables were dropped. 4% of the"
    " modules hold a zero-sized code block (a scope that designates one"
    " makes apply() raise: F51). One case in ten registers the same scope"
    " OBJECTS in two successive contexts (the first context's patches end"
    " in calls, so exit blocks change) and compares the bytes with a run"
    " whose second context gets equal new objects; one in 25 designates"
    " a block capstone decodes only in part (EXIT must be refused,"
    " ENTRY placed at offset 0)."
)
ASSUMPTIONS = [
    "exit blocks are derived from the input listing's control flow (return, or a non-call edge leaving the function)",
]
BUDGET = {"quick": (4000, 40), "thorough": (120000, 480)}
REQUIRED_COUNTERS = ["applications_compared", "contexts_compared",
                     "registrations"]


def run_invocations(case):
    """insert_at / replace_at (code and data blocks, several per block): the
    InsertionContext of every callback names the block the request was made
    for, the requested offset and the block's function (none for data)"""
    ctr = {"insertion_contexts_checked": 0}
    viol = []
    r = rewrite.run(case)
    if r.exception is not None:
        return {"sig": None, "violations": [], "counters": ctr}
    fn_of = {b: f["name"] for f in case["funcs"] for b in f["blocks"]}
    for inv in r.rec.invocations:
        eid = inv["eid"]
        if eid >= 1000 or eid >= len(case["edits"]):
            continue
        e = case["edits"][eid]
        blk = rwbase.find_block(case, e["b"])
        ctr["insertion_contexts_checked"] += 1
        if inv["block"] is not r.bu.blocks[e["b"]]:
            viol.append({"key": "context:block-is-not-the-requested-block",
                         "msg": f"edit {eid}"})
        want_off = r.bu.item_offsets[e["b"]][e["i"]]
        if inv["offset"] != want_off:
            viol.append({"key": "context:offset-differs",
                         "msg": f"edit {eid}: {inv['offset']} != {want_off}"})
        want_fn = fn_of.get(e["b"]) if blk["code"] else None
        got_fn = inv["function"].get_name() if inv["function"] is not None \
            else None
        if got_fn != want_fn:
            viol.append({
                "key": "context:function-differs:" + (
                    "code" if blk["code"] else "data"),
                "msg": f"edit {eid}: {got_fn} != {want_fn}"})
    return {"sig": rwbase.shape_signature(case) + "|ctx" if case["edits"]
            else None, "violations": viol, "counters": ctr}


def gen_case(rng, tier, index):
    if index % 10 == 7:
        case = gen_rewrite.generate(rng, tier, shared_blocks=False)
        case["w"] = "invocations"
        case.pop("driver", None)
        return case
    if index % 25 == 24:
        # a block that capstone decodes only in part: positions that need the
        # block's instructions must be refused, never guessed
        g = gen_rewrite.Gen(rng, tier, isa=("x64", "elf"), empty_blocks_p=0)
        case = g.module()
        case["edits"] = []
        cands = [b["id"] for b in g.code_blocks if len(b["items"]) >= 2]
        case.update(w="undecodable", passes=[],
                    block=rng.choice(cands) if cands else None,
                    pos=rng.choice(["ENTRY", "EXIT", "ANYWHERE"]),
                    scope=rng.choice(["single", "allblocks"]))
        return case
    again = index % 10 == 9
    g = gen_rewrite.Gen(rng, tier, empty_blocks_p=0 if again else 0.04)
    case = g.module()
    case["edits"] = []
    if again:
        # the same scope objects serve two successive contexts (scopes are
        # values: what a scope designates is a matter of the module as it is
        # when the context applies)
        case["w"] = "again"
    if rng.random() < 0.15:
        case["funcs"] = []
        case["no_function_tables"] = True
    if case["funcs"] and rng.random() < 0.3:
        # a function called main
        f = rng.choice(case["funcs"])
        old = f["name"]
        for s in case["secs"]:
            for iv in s["ivs"]:
                for b in iv["blocks"]:
                    b["labels"] = ["main" if l == old else l
                                   for l in b["labels"]]
                    for it in b["items"]:
                        if it.get("t") == old:
                            it["t"] = "main"
        f["name"] = "main"
    fnames = [f["name"] for f in case["funcs"]]
    code_ids = [b["id"] for b in g.code_blocks]
    npass = rng.choice([1, 1, 2, 3, 4])
    passes = []
    for _ in range(npass):
        regs = []
        for _ in range(rng.randrange(1, 6)):
            k = rng.random()
            pos = rng.choice(["ENTRY", "EXIT", "ANYWHERE"])
            filt = None
            if rng.random() < 0.6 and fnames:
                filt = []
                for _ in range(rng.randrange(1, 3)):
                    r = rng.random()
                    if r < 0.4:
                        filt.append(["lit", rng.choice(fnames)])
                    elif r < 0.6:
                        filt.append(["re", rng.choice(["fn[01]", "fn.*",
                                                       "main|fn2", "x"])])
                    elif r < 0.8:
                        filt.append(["main"])
                    else:
                        filt.append(["entrypoint"])
            if k < 0.4:
                sc = {"kind": "allblocks", "pos": pos, "exclude": filt}
            elif k < 0.75:
                sc = {"kind": "allfuncs",
                      "fpos": rng.choice(["ENTRY", "EXIT"]), "pos": pos,
                      "functions": filt}
            else:
                if not code_ids:
                    continue
                sc = {"kind": "single", "block": rng.choice(code_ids),
                      "pos": pos}
            regs.append({"scope": sc,
                         "body": [rng.choice(gen_rewrite.ORD_KEYS)
                                  for _ in range(rng.randrange(0, 3))]})
            if again and fnames and rng.random() < 0.6:
                # ... and the first context's patches change which block
                # ends a function: they end in a call
                regs[-1]["calls"] = rng.choice(fnames)
        if again:
            regs = [r for r in regs if r["scope"]["kind"] != "single"]
        passes.append(regs)
    case["passes"] = passes
    case["driver"] = rng.choice(["ctx", "pm"])
    if not again and rng.random() < 0.2:
        # the same context (or a pass) also adds a whole function: no scope
        # designates it, it did not exist when the scopes were registered
        nops = [rng.choice(gen_rewrite.ORD_KEYS)
                for _ in range(rng.randrange(0, 3))]
        case["newfunc"] = {"name": "newfn0", "body": nops}
    case["own_function_analysis"] = rng.random() < 0.25
    if again and fnames and rng.random() < 0.7:
        # between the two contexts the module's entry point moves to
        # another function: ENTRYPOINT_NAME is a matter of the module as it
        # is, not of what a scope object saw before
        case["move_entry"] = rng.choice(fnames)
    return case


def make_scope(sc):
    from gtirb_rewriting import (AllBlocksScope, AllFunctionsScope,
                                 BlockPosition, FunctionPosition)
    from gtirb_rewriting.scopes import ENTRYPOINT_NAME, MAIN_NAME

    def names(filt):
        if filt is None:
            return None
        out = set()
        for f in filt:
            if f[0] == "lit":
                out.add(f[1])
            elif f[0] == "re":
                out.add(re.compile(f[1]))
            elif f[0] == "main":
                out.add(MAIN_NAME)
            else:
                out.add(ENTRYPOINT_NAME)
        return out
    pos = getattr(BlockPosition, sc["pos"])
    if sc["kind"] == "allblocks":
        return AllBlocksScope(pos, names(sc["exclude"]))
    return AllFunctionsScope(getattr(FunctionPosition, sc["fpos"]),
                             pos, names(sc["functions"]))


def run_undecodable(case):
    from gtirb_rewriting import (AllBlocksScope, BlockPosition, Constraints,
                                 Patch, RewritingContext, SingleBlockScope)
    ctr = {"undecodable_block_probes": 0}
    if case["block"] is None:
        return {"sig": None, "violations": [], "counters": ctr}
    bu, lst0 = irbuild.build(case, random.Random("uuid:0"))
    m = bu.module
    blk = bu.blocks[case["block"]]
    offs = lst0.item_offsets(case["block"])
    bi = blk.byte_interval
    # the first instruction becomes bytes that are no instruction in 64-bit
    # mode; the rest of the block (its terminator included) stays
    raw = bytearray(bi.contents)
    for k in range(blk.offset, blk.offset + offs[1]):
        raw[k] = 0x06
    bi.contents = bytes(raw)
    for k in list(bi.symbolic_expressions):
        if blk.offset <= k < blk.offset + offs[1]:
            del bi.symbolic_expressions[k]
    before = bytes(bi.contents)
    fns = gtirb_functions.Function.build_functions(m) \
        if "functionEntries" in m.aux_data else []
    ctx = RewritingContext(m, fns)
    pos = getattr(BlockPosition, case["pos"])
    sc = SingleBlockScope(blk, pos) if case["scope"] == "single" \
        else AllBlocksScope(pos)
    text = rewrite.patch_text("x64", [{"k": "mark", "imm": mark_imm(
        case, 1, 0)}])
    ctx.register_insert(sc, Patch.from_function(
        lambda c: text, Constraints()))
    ctr["undecodable_block_probes"] = 1
    viol = []
    try:
        ctx.apply()
        accepted = True
    except Exception:  # noqa
        accepted = False
    if case["pos"] in ("ENTRY", "ANYWHERE"):
        # needs no instructions: the patch stands in front of the block
        # (offset 0 is an instruction boundary whatever follows; ANYWHERE
        # may also be refused)
        mk = vocab.encode("x64", "mark", mark_imm(case, 1, 0))
        now = bytes(bi.contents)
        at = now.find(mk)
        if not accepted:
            if case["pos"] == "ENTRY":
                viol.append({"key": "scope:undecodable-block:entry-refused",
                             "msg": ""})
        elif case["scope"] == "single" and not (
                now[:blk.offset] == before[:blk.offset] and
                at == blk.offset):
            viol.append({"key": "scope:undecodable-block:misplaced:" +
                                case["pos"],
                         "msg": f"marker at {at}, block at {blk.offset}"})
    elif accepted:
        viol.append({
            "key": "scope:undecodable-block:position-guessed:" + case["pos"],
            "msg": bytes(bi.contents).hex()})
    return {"sig": f"undecodable:{case['scope']}:{case['pos']}",
            "violations": viol, "counters": ctr}


def run_again(case):
    """round 1 and round 2 register the same registrations; once round 2
    re-uses round 1's scope objects, once it builds equal new ones: the two
    modules must be the same"""
    from gtirb_rewriting import Constraints, Patch, RewritingContext
    from gtirb_rewriting.rewriting import UnresolvableScopeError
    isa = case["isa"]
    flat = [r for p in case["passes"] for r in p]
    ctr = {"contexts_compared": 0, "registrations": 0,
           "applications_compared": 0, "scope_objects_reused": 0}
    if not flat:
        return {"sig": None, "violations": [], "counters": ctr}

    def patch(r, reg, rnd):
        lines = [{"k": "mark", "imm": mark_imm(case, r + 32 * rnd, 0)}] + [
            {"k": k} for k in reg["body"]]
        if reg.get("calls") and rnd == 0:
            lines.append({"k": "call", "t": reg["calls"]})
        text = rewrite.patch_text(isa, lines)
        return Patch.from_function(lambda ctx, text=text: text,
                                   Constraints())

    def run(reuse):
        bu, _ = irbuild.build(case, random.Random("uuid:0"))
        m = bu.module
        scopes = [make_scope(reg["scope"]) for reg in flat]
        for rnd in (0, 1):
            fns = gtirb_functions.Function.build_functions(m) \
                if "functionEntries" in m.aux_data else []
            ctx = RewritingContext(m, fns)
            for r, reg in enumerate(flat):
                sc = scopes[r] if (reuse or rnd == 0) else make_scope(
                    reg["scope"])
                try:
                    ctx.register_insert(sc, patch(r, reg, rnd))
                except UnresolvableScopeError:
                    pass
            ctx.apply()
            if rnd == 0 and case.get("move_entry"):
                ref = bu.symbols[case["move_entry"]].referent
                if isinstance(ref, gtirb.CodeBlock):
                    m.entry_point = ref
                    ctr["entry_points_moved"] = 1
        # where the patches landed: the bytes of every original interval
        # (the CFG of the second round also depends on where the first
        # round's final re-layout put unconnected intervals, F34)
        return [[bytes(bi.contents).hex() for bi in row]
                for row in bu.intervals]
    out = []
    for reuse in (True, False):
        try:
            out.append(("ok", run(reuse)))
        except Exception as x:  # noqa
            out.append(("exc", type(x).__name__))
    viol = []
    ctr["registrations"] = 2 * len(flat)
    ctr["scope_objects_reused"] = len(flat)
    if out[0] != out[1]:
        viol.append({
            "key": "scope:re-used-scope-objects-give-another-module",
            "msg": f"{out[0][0]} / {out[1][0]} " + (
                out[0][1] if out[0][0] == "exc" else "") + " " + (
                out[1][1] if out[1][0] == "exc" else "")})
    elif out[0][0] == "ok":
        ctr["contexts_compared"] = 2
        ctr["applications_compared"] = 1
    sig = None
    if out[0][0] == "ok":
        sig = "again:" + ",".join(sorted(
            f"{r['scope']['kind']}:{r['scope']['pos']}:"
            f"{int(bool(r.get('calls')))}" for r in flat))
    return {"sig": sig, "violations": viol, "counters": ctr}


def match_names(case, lst, fname, filt):
    """independent copy of the name filter semantics"""
    for f in filt:
        if f[0] == "lit" and fname == f[1]:
            return True
        if f[0] == "re" and re.fullmatch(f[1], fname):
            return True
        if f[0] == "main" and fname == "main":
            return True
        if f[0] == "entrypoint":
            fn = next(x for x in case["funcs"] if x["name"] == fname)
            if case.get("entry") in fn["entries"]:
                return True
    return False


def exit_blocks(case, lst, bu):
    """blocks of a function with a return edge or an edge (other than a call
    or syscall) that leaves the function; read from the input CFG that
    irbuild derived from the listing"""
    bid_of = {id(blk): bid for bid, blk in bu.blocks.items()}
    res = set()
    for bid, blk in bu.blocks.items():
        if not isinstance(blk, gtirb.CodeBlock):
            continue
        fn = lst.block_fn.get(bid)
        if fn is None:
            continue
        for e in blk.outgoing_edges:
            et = e.label.type
            if et == gtirb.Edge.Type.Return:
                res.add(bid)
            elif et not in (gtirb.Edge.Type.Call, gtirb.Edge.Type.Syscall):
                tb = bid_of.get(id(e.target))
                if tb is None or lst.block_fn.get(tb) != fn:
                    res.add(bid)
    return res


def terminator_index(case, lst, bid):
    """item index of the EXIT position: before the last instruction when the
    block has a non-fallthrough outgoing edge, else the end"""
    blk = lst.block_info[bid]["blk"]
    n = len(blk["items"])
    if not n:
        return 0
    kind = vocab.VOCAB[case["isa"]][blk["items"][-1]["k"]]["kind"]
    if kind in ("jmp", "jcc", "call", "ret", "ijmp", "icall", "syscall"):
        return n - 1
    return n


def mark_imm(case, r, bid):
    if case["isa"] == "arm64":
        return (r * 128 + bid) & 0xFFFF
    return gen_rewrite.MARK_BASE + r * 1024 + bid


def run_case(case):
    from gtirb_rewriting import (AllBlocksScope, AllFunctionsScope,
                                 BlockPosition, Constraints,
                                 FunctionPosition, Pass, PassManager, Patch,
                                 RewritingContext, SingleBlockScope)
    from gtirb_rewriting.rewriting import UnresolvableScopeError
    from gtirb_rewriting.scopes import ENTRYPOINT_NAME, MAIN_NAME
    if case.get("w") == "again":
        return run_again(case)
    if case.get("w") == "undecodable":
        return run_undecodable(case)
    if case.get("w") == "invocations":
        return run_invocations(case)
    viol = []
    ctr = {"applications_compared": 0, "contexts_compared": 0,
           "registrations": 0, "expected_refusals": 0,
           "anywhere_relaxed": 0}
    isa = case["isa"]
    bu, lst0 = irbuild.build(case, random.Random("uuid:0"))
    bu.item_offsets = {b: lst0.item_offsets(b) for b in lst0.block_info}
    m = bu.module
    bid_of = {id(b): k for k, b in bu.blocks.items()}
    have_fn = bool(case["funcs"])
    exits = exit_blocks(case, lst0, bu)
    flat = [r for p in case["passes"] for r in p]
    contexts = []

    def to_scope(sc):
        def names(filt):
            if filt is None:
                return None
            out = set()
            for f in filt:
                if f[0] == "lit":
                    out.add(f[1])
                elif f[0] == "re":
                    out.add(re.compile(f[1]))
                elif f[0] == "main":
                    out.add(MAIN_NAME)
                else:
                    out.add(ENTRYPOINT_NAME)
            return out
        pos = getattr(BlockPosition, sc["pos"])
        if sc["kind"] == "allblocks":
            return AllBlocksScope(pos, names(sc["exclude"]))
        if sc["kind"] == "allfuncs":
            return AllFunctionsScope(getattr(FunctionPosition, sc["fpos"]),
                                     pos, names(sc["functions"]))
        return SingleBlockScope(bu.blocks[sc["block"]], pos)

    def mk_patch(r, reg):
        class P(Patch):
            def __init__(self):
                super().__init__(Constraints())

            def get_asm(self, ctx):
                bid = bid_of.get(id(ctx.block))
                contexts.append((r, bid, ctx.offset,
                                 ctx.function.get_name() if ctx.function
                                 else None, ctx.module is m))
                lines = [{"k": "mark", "imm": mark_imm(case, r, bid or 0)}] \
                    + [{"k": k} for k in reg["body"]]
                return rewrite.patch_text(isa, lines)
        return P()
    refused = []

    def register_all(ctx, regs, base):
        for k, reg in enumerate(regs):
            r = base + k
            ctr["registrations"] += 1
            try:
                ctx.register_insert(to_scope(reg["scope"]), mk_patch(r, reg))
            except UnresolvableScopeError:
                refused.append(r)
    newfn = {}

    def add_function(ctx):
        nf = case.get("newfunc")
        if nf and not newfn:
            lines = [{"k": "mark", "imm": mark_imm(case, 60, 0)}] + [
                {"k": k} for k in nf["body"]] + [{"k": "ret"}]
            newfn["want"] = b"".join(vocab.encode(isa, ln["k"], ln.get("imm"))
                                     for ln in lines)
            text = rewrite.patch_text(isa, lines)
            newfn["sym"] = ctx.register_insert_function(
                nf["name"], Patch.from_function(lambda c: text,
                                                Constraints()))
    exc = None
    try:
        if case["driver"] == "ctx":
            fns = gtirb_functions.Function.build_functions(m) \
                if "functionEntries" in m.aux_data else []
            if fns and case.get("own_function_analysis"):
                # the caller's own function objects are what counts, also
                # when the module's tables do not (any longer) say the same
                for tname in ("functionBlocks", "functionEntries",
                              "functionNames"):
                    m.aux_data.pop(tname, None)
                ctr["own_function_analysis"] = 1
            ctx = RewritingContext(m, fns)
            base = 0
            for k, regs in enumerate(case["passes"]):
                if k == len(case["passes"]) // 2:
                    add_function(ctx)
                register_all(ctx, regs, base)
                base += len(regs)
            ctx.apply()
        else:
            pm = PassManager()
            base = 0
            for regs in case["passes"]:
                class Ps(Pass):
                    def __init__(self, regs, base):
                        self.regs, self.base = regs, base

                    def begin_module(self, module, functions, rctx):
                        if self.base == 0:
                            add_function(rctx)
                        register_all(rctx, self.regs, self.base)
                pm.add(Ps(regs, base))
                base += len(regs)
            pm.run(bu.ir)
    except Exception as x:  # noqa
        exc = x
    # expected refusals
    want_refused = [r for r, reg in enumerate(flat)
                    if reg["scope"]["kind"] == "allfuncs" and not have_fn]
    if sorted(refused) != want_refused:
        viol.append({"key": "scope:unresolvable-scope-handling",
                     "msg": f"refused {sorted(refused)} expected "
                            f"{want_refused}"})
    ctr["expected_refusals"] += len(want_refused)
    # ---- scope model -> per-block insertions
    edits = []
    owner = {}
    code_blocks = [(bid, info) for bid, info in lst0.block_info.items()
                   if info["code"]]
    for r, reg in enumerate(flat):
        sc = reg["scope"]
        if r in want_refused:
            continue
        for bid, info in sorted(code_blocks):
            fn = lst0.block_fn.get(bid)
            if sc["kind"] == "allblocks":
                ok = True
                if fn is not None and sc["exclude"] is not None and \
                        match_names(case, lst0, fn, sc["exclude"]):
                    ok = False
            elif sc["kind"] == "allfuncs":
                ok = fn is not None and (
                    sc["functions"] is None or
                    match_names(case, lst0, fn, sc["functions"]))
                if ok:
                    f = next(x for x in case["funcs"] if x["name"] == fn)
                    ok = (bid in f["entries"]) if sc["fpos"] == "ENTRY" \
                        else (bid in exits)
            else:
                ok = bid == sc["block"]
            if not ok:
                continue
            pos = sc["pos"]
            i = 0 if pos in ("ENTRY", "ANYWHERE") else terminator_index(
                case, lst0, bid)
            lines = [{"k": "mark", "imm": mark_imm(case, r, bid)}] + [
                {"k": k} for k in reg["body"]]
            edits.append({"op": "ins", "b": bid, "i": i,
                          "p": {"lines": lines}, "_r": r, "_pos": pos})
    if exc is not None:
        kind, key = oracles.classify_apply_exception(
            dict(case, edits=edits), exc)
        if kind == "raised":
            import traceback
            if key in ("apply-raises:AssertionError@edit.py:insert",
                       "apply-raises:ValueError@rewriting.py:"
                       "resolve_offsets") and any(
                    not lst0.block_info[e["b"]]["blk"]["items"]
                    for e in edits):
                # (F51) a registration designates a zero-sized block
                key += ":zero-sized-block-designated"
            viol.append({"key": "scope:" + key, "msg": "".join(
                traceback.format_exception(type(exc), exc,
                                           exc.__traceback__))[-1500:]})
        return {"sig": None, "violations": viol, "counters": ctr}
    if newfn:
        # the inserted function holds its own body and nothing else
        ctr["inserted_functions_checked"] = 1
        blk = newfn["sym"].referent
        bi = getattr(blk, "byte_interval", None)
        got = bytes(bi.contents) if bi is not None else None
        if got != newfn["want"]:
            viol.append({
                "key": "scope:applied-to-a-function-inserted-by-the-same-"
                       "context",
                "msg": f"{got.hex() if got is not None else None} != "
                       f"{newfn['want'].hex()}"})
    mcase = dict(case, edits=edits)
    lst = rewrite.expected(mcase)
    exp = lst.layout()
    ob = irview.observe(bu, isa)
    mismatch = any(ob.bytes[si][ii] != b for si, row in enumerate(exp)
                   for ii, b in enumerate(row))
    allbytes = b"\0\0\0\0".join(b for row in ob.bytes for b in row)
    if mismatch:
        anywhere = any(e["_pos"] == "ANYWHERE" for e in edits)
        # per-marker diagnosis
        for e in edits:
            mk = vocab.encode(isa, "mark", e["p"]["lines"][0]["imm"])
            cnt = allbytes.count(mk)
            if cnt != 1:
                viol.append({
                    "key": f"scope:marker-count-{min(cnt, 2)}:"
                           f"{flat[e['_r']]['scope']['kind']}:{e['_pos']}",
                    "msg": f"registration {e['_r']} block {e['b']}: "
                           f"{cnt} occurrences"})
        extra_marks = 0
        if not viol:
            if anywhere:
                ctr["anywhere_relaxed"] += 1
            viol.append({"key": "scope:bytes-differ-from-scope-model" + (
                ":with-anywhere" if anywhere else ""),
                "msg": f"{[[x.hex() for x in r] for r in ob.bytes]} != "
                       f"{[[x.hex() for x in r] for r in exp]}"[:1200]})
    # markers for applications that must NOT happen
    want_marks = {(e["_r"], e["b"]) for e in edits}
    for r, reg in enumerate(flat):
        for bid, info in code_blocks:
            if (r, bid) in want_marks:
                continue
            mk = vocab.encode(isa, "mark", mark_imm(case, r, bid))
            if mk in allbytes:
                viol.append({
                    "key": f"scope:applied-to-undesignated-block:"
                           f"{reg['scope']['kind']}:{reg['scope']['pos']}",
                    "msg": f"registration {r} in block {bid}"})
    ctr["applications_compared"] += len(edits)
    # contexts
    offs = {e["b"]: lst0.item_offsets(e["b"]) for e in edits}
    want_ctx = sorted((e["_r"], e["b"], offs[e["b"]][e["i"]],
                       lst0.block_fn.get(e["b"]), True) for e in edits)
    got_ctx = sorted(contexts, key=lambda x: (x[0], x[1] if x[1] is not None
                                              else -1))
    ctr["contexts_compared"] += len(want_ctx)
    if got_ctx != want_ctx:
        only_got = [c for c in got_ctx if c not in want_ctx][:4]
        only_want = [c for c in want_ctx if c not in got_ctx][:4]
        kind = "function" if [c[:3] for c in got_ctx] == [
            c[:3] for c in want_ctx] else "location"
        viol.append({"key": f"scope:insertion-context-{kind}-differs",
                     "msg": f"got-only {only_got} want-only {only_want}"})
    kinds = sorted({f"{r['scope']['kind']}/{r['scope'].get('fpos', '')}"
                    f"/{r['scope']['pos']}" for r in flat})
    sig = None
    if edits:
        sig = (f"{isa}-{case['fmt']}:{case['driver']}:"
               f"{'fn' if have_fn else 'nofn'}:{len(case['passes'])}p:" +
               ",".join(kinds))
    return {"sig": sig, "violations": viol, "counters": ctr}
