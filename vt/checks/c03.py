"""C03: CFG equals the control flow of the edited listing, per instruction."""
from .. import gen_rewrite, oracles
from . import rwbase

PROP = "C03"
LEVEL = "exploration"
TECHNIQUE = "reference-model monitor: per-instruction control flow of the edited listing vs CFG flattened through an independent capstone decode"
RULE = (
    "same seeded rewrite scenarios as C01 with block terminators drawn from "
    "{none,jmp,jcc,call,ret,ijmp,icall,halt} and patches ending in "
    "{ordinary,ret,jmp,ijmp,halt,label}; the output CFG is flattened to "
    "(instruction position, edge type, conditional, direct, target position "
    "or proxy identity) tuples via capstone and compared as a set with the "
    "relation derived from the edited listing (fallthrough, branch/call "
    "targets by label position, return edges = return sites of direct calls "
    "into the function). non-trivial = apply() returned with >=1 edit and "
    ">=1 edge compared; distinct = distinct shape signatures. Modules and "
    "patches as in C01 (zero-sized input blocks take and pass on "
    "fallthrough, return and branch edges)."
    " Second module in the IR as in C01: its blocks and its edges in ir.cfg must be unchanged."
    " 1% of the modules have 30-89 code blocks."
)
RULE += (
    " More calls into one function and more function-centred edit sets (incl. a second returning patch) than the other listing checks; pairs of call blocks to one callee of which one is deleted, callees with many call sites that always return."
)
ASSUMPTIONS = [
    "don't-care classes 1-4 of DESIGN 2.1 (halt fallthrough, no physically following code, edges of retained zero-sized blocks, predecessor of a proxy-deleted block)",
    "indirect transfers are only required to lead to some proxy with direct=False",
]
BUDGET = {"quick": (6000, 40), "thorough": (250000, 540)}
REQUIRED_COUNTERS = ["applies", "edges_compared", "instructions_compared"]

def gen_case(rng, tier, index):
    # (more calls into one function and more function-centred edit sets than
    # the other listing checks: return edges are this property's subject)
    return gen_rewrite.generate(rng, tier, popular_callee_p=0.35,
                                themed_p=0.4, call_pair_p=0.2, big_p=0.01)


def run_case(case):
    a = rwbase.analyze(case)
    if a.skip is None:
        v, c = oracles.check_cfg(a.run, a.lst, a.ob)
        a.viol += v
        a.ctr.update(c)
    rwbase.bystander(a, PROP)
    return rwbase.result(a)
