"""C17: CallPatch follows the calling convention and is stack-neutral."""
import dataclasses
import random

import gtirb

from .. import emu
from . import c16

PROP = "C17"
LEVEL = "exploration"
TECHNIQUE = "shadow-memory interpreter run to the call instruction and to the end: the real CallPatch text (with the real prologue/epilogue, or alone under every reported stack adjustment) is assembled by the real assembler, decoded by capstone and executed; registers and shadowed stack are inspected at the call against the calling-convention layout"
RULE = (
    "0-16 arguments mixing integers (0, +-1, imm8/16/32/64 boundaries, "
    "random 64-bit), symbols (internal, external) and callables; default and "
    "custom CallingConventionDesc (0-8 registers, alignment 4/8/16/32, "
    "shadow space 0/16/32/64, caller/callee cleanup); align_stack on/off; "
    "x86-64 ELF/PE, IA32 PE, ARM64; mode 'full' runs prologue+call+epilogue "
    "from an aligned (or, with align_stack, arbitrary) stack pointer, mode "
    "'body' runs the call sequence alone for stack_adjustment in "
    "{None,0,8,...,256}. Judged at the call: i-th argument in the i-th "
    "register / stack slot SP+shadow+slot*(i-nregs), exact integer values, "
    "symbol arguments as addresses, SP aligned, and at the end SP restored "
    "(after the callee's own cleanup when callee-cleanup), argument "
    "callables invoked with the insertion context - also when the same "
    "patch object is used at a second site, where the text must equal that "
    "of a patch built from that site's values. non-trivial = call "
    "reached in the interpreter; distinct = (abi, mode, #args, #stack args, "
    "kinds, convention)."
    " One case in ten inserts one CallPatch object at two boundaries"
    " of one block through RewritingContext and executes both"
    " sequences (callable evaluated per site with the requested"
    " block/offset, SP/registers/flags restored after each)."
)
ASSUMPTIONS = [
    "shadow sizes that are not multiples of the alignment are reported under their own key",
    "IA32 integers are limited to 32 bits",
]
BUDGET = {"quick": (5000, 45), "thorough": (150000, 500)}
REQUIRED_COUNTERS = ["calls_reached", "argument_checks", "context_call_sites",
                     "instructions_executed"]

ABIS = ["x64-elf", "x64-pe", "ia32-pe", "arm64-elf"]
ARGREGS = {"x64-elf": ["RDI", "RSI", "RDX", "RCX", "R8", "R9", "R10",
                       "R11"],
           "x64-pe": ["RCX", "RDX", "R8", "R9", "R10", "R11", "RAX", "RSI"],
           "ia32-pe": ["ECX", "EDX", "EAX"],
           "arm64-elf": [f"x{i}" for i in range(8)]}
DEFAULT = {"x64-elf": (["RDI", "RSI", "RDX", "RCX", "R8", "R9"], 16, True,
                       0),
           "x64-pe": (["RCX", "RDX", "R8", "R9"], 16, True, 32),
           "ia32-pe": ([], 4, True, 0),
           "arm64-elf": ([f"x{i}" for i in range(8)], 16, True, 0)}


def gen_int(rng, bits):
    k = rng.choice([0, 7, 8, 15, 16, 31, 32, 33, 47, 63, 64])
    k = min(k, bits)
    cands = [0, 1, -1, 5, -5, 127, 128, -128, -129, 255, 256, 0xFFFF,
             0x10000, -0xFFFF, -0x10000, (1 << k) - 1, 1 << k, -(1 << k),
             rng.getrandbits(bits), -rng.getrandbits(bits - 1)]
    v = rng.choice(cands)
    lo, hi = -(1 << (bits - 1)), (1 << bits) - 1
    return max(lo, min(hi, v))


def gen_case(rng, tier, index):
    if index % 10 == 9:
        # one patch object, two sites of one block, through RewritingContext
        return {"kind": "ctx", "abi": rng.choice(["x64-elf", "x64-pe",
                                                  "arm64-elf"]),
                "base": rng.randrange(0x100, 0x7000),
                "nconst": rng.randrange(0, 3),
                "seed": rng.randrange(1 << 30),
                # two different patch objects instead: one that relies on
                # the reported stack adjustment (align_stack off, with or
                # without the flags saved) and a default one, either first
                "pair": random.Random(f"pair:{index}").choice(
                    [None, None, "noalign-first", "noalign-last",
                     "noalign-noflags-first", "noalign-noflags-last"])}
    abi = rng.choice(ABIS)
    bits = 32 if abi == "ia32-pe" else 64
    nargs = rng.choice([0, 1, 2, 3, 4, 6, 7, 9, 11, 16])
    args = []
    for _ in range(nargs):
        r = rng.random()
        if r < 0.65:
            a = {"int": gen_int(rng, bits)}
        elif r < 0.85:
            a = {"sym": rng.choice(["gint", "gext"])}
        else:
            a = {"call": gen_int(rng, bits) if rng.random() < 0.7
                 else rng.choice(["gint", "gext"])}
        args.append(a)
    conv = None
    if rng.random() < 0.4:
        if abi == "arm64-elf":
            conv = {"regs": ARGREGS[abi][:rng.randrange(0, 9)],
                    "align": rng.choice([16, 16, 16, 8, 32, 64]),
                    "cleanup": True,
                    "shadow": rng.choice([0, 0, 0, 16])}
        else:
            conv = {"regs": ARGREGS[abi][:rng.randrange(
                        0, len(ARGREGS[abi]) + 1)],
                    "align": rng.choice([4, 8, 16, 32]) if abi != "ia32-pe"
                    else rng.choice([4, 8, 16]),
                    "cleanup": rng.random() < 0.6,
                    "shadow": rng.choice([0, 16, 32, 64, 8, 24])}
    mode = rng.choice(["full", "full", "body"])
    adjs = [None, 0, 8, 16, 24, 40, 64, 128, 136, 256]
    if abi == "arm64-elf":
        adjs = [None, 0, 16, 32, 64, 128, 256]
    elif abi == "ia32-pe":
        adjs += [4, 12, 20, 36]
    return {"abi": abi, "args": args, "conv": conv, "mode": mode,
            "align_stack": rng.random() < 0.5,
            "adj": rng.choice(adjs),
            "leaf": rng.random() < 0.5, "seed": rng.randrange(1 << 30),
            "callee": rng.choice(["gext", "gfun"])}


def make_module(abi_name):
    from gtirb_test_helpers import create_test_module
    isa, isa_g, fmt = c16.ABIS[abi_name]
    ir, m = create_test_module(fmt, isa_g, ["DYN"])
    sec = gtirb.Section(name=".text", flags={
        gtirb.Section.Flag.Executable, gtirb.Section.Flag.Readable,
        gtirb.Section.Flag.Loaded, gtirb.Section.Flag.Initialized})
    sec.module = m
    bi = gtirb.ByteInterval(contents=bytes(16), address=0x1000)
    bi.section = sec
    code = gtirb.CodeBlock(offset=0, size=8)
    code.byte_interval = bi
    data = gtirb.DataBlock(offset=8, size=8)
    data.byte_interval = bi
    proxy = gtirb.ProxyBlock()
    m.proxies.add(proxy)
    syms = {}
    for name, ref in (("gint", data), ("gext", proxy), ("gfun", code)):
        s = gtirb.Symbol(name, payload=ref)
        s.module = m
        syms[name] = s
    return m, code, syms


def run_ctx(c):
    """the same CallPatch object inserted at two boundaries of one block in
    one RewritingContext: both sequences are complete (arguments, call,
    epilogue) and the callable argument is evaluated for each site"""
    import gtirb_functions
    from gtirb_rewriting import RewritingContext
    from gtirb_rewriting.patches import CallPatch
    from .. import irbuild
    viol = []
    ctr = {"context_call_sites": 0, "instructions_executed": 0}
    abi_name = c["abi"]
    isa, isa_g, fmt = c16.ABIS[abi_name]

    def blk(i, labels, items):
        return {"id": i, "code": True, "labels": labels, "elabels": [],
                "items": items}
    blocks = [blk(0, ["f"], [{"k": "nop"}, {"k": "nop"}]),
              blk(1, ["f1"], [{"k": "ret"}]),
              blk(9, ["g"], [{"k": "ret"}])]
    case = {"isa": isa, "fmt": "elf" if fmt == gtirb.Module.FileFormat.ELF
            else "pe", "pie": False, "externs": [], "entry": None,
            "edits": [], "funcs": [
                {"name": "f", "blocks": [0, 1], "entries": [0]},
                {"name": "g", "blocks": [9], "entries": [9]}],
            "secs": [{"name": ".text", "exec": True,
                      "ivs": [{"gap": 0, "blocks": blocks}]}]}
    bu, lst = irbuild.build(case, random.Random("uuid:0"))
    m = bu.module
    nopsz = 4 if isa == "arm64" else 1
    seen = []

    def arg(ctx):
        seen.append((ctx.block, ctx.offset))
        return c["base"] + ctx.offset
    consts = [7 + k for k in range(c["nconst"])]
    patch = patch2 = CallPatch(bu.symbols["g"], consts + [arg])
    pair = c.get("pair")
    if pair:
        kw = {"align_stack": False}
        if "noflags" in pair:
            kw["clobbers_flags"] = False
        other = CallPatch(bu.symbols["g"], consts + [arg], **kw)
        if pair.endswith("first"):
            patch = other
        else:
            patch2 = other
        ctr["context_pairs_of_different_patches"] = 1
    functions = gtirb_functions.Function.build_functions(m)
    ctx = RewritingContext(m, functions)
    ctx.insert_at(bu.blocks[0], 0, patch)
    ctx.insert_at(bu.blocks[0], nopsz, patch2)
    ctx.apply()
    if seen != [(bu.blocks[0], 0), (bu.blocks[0], nopsz)]:
        viol.append({"key": "context:callable-context-differs",
                     "msg": f"{[(b is bu.blocks[0], o) for b, o in seen]}"})
    f0 = bu.symbols["f"].referent
    f1 = bu.symbols["f1"].referent
    bi = f0.byte_interval
    lo, hi = f0.offset, f1.offset
    if f1.byte_interval is not bi or not (lo < hi):
        return {"sig": None, "violations": viol, "counters": ctr,
                "inconclusive": "region-not-contiguous"}
    data = bytes(bi.contents)[lo:hi]
    exprs = {o - lo: e.symbol.name
             for o, e in bi.symbolic_expressions.items() if lo <= o < hi}
    rng = random.Random(c["seed"])
    bits = 64
    names = [c16.canon(abi_name, r) for r in c16.ALLREGS[abi_name]]
    if isa == "x64":
        names += ["rbp"]
    init = {n: rng.getrandbits(bits) for n in names}
    f_0 = rng.getrandbits(12)
    sp0 = 0x7FFF0000
    mc = emu.Machine(isa, init, sp0, f_0, exprs=exprs,
                     red_zone=c16.RED.get(abi_name, 0), leaf=True)
    mc.sp0 = sp0
    md = emu.irview.decoder(isa)
    regs = DEFAULT[abi_name][0]
    off = 0
    want = [c["base"] + 0, c["base"] + nopsz]
    try:
        mc.phase = "prologue"
        for ins in md.disasm(data, 0):
            mc.ninstr += 1
            ncalls = len(mc.calls)
            getattr(mc, "step_" + ("x86" if isa == "x64" else isa))(ins, off)
            off += ins.size
            if len(mc.calls) > ncalls:
                k = len(mc.calls) - 1
                ev = mc.calls[-1]
                ctr["context_call_sites"] += 1
                if ev["target"] != "g":
                    viol.append({"key": "context:wrong-callee",
                                 "msg": str(ev["target"])})
                reg = c16.canon(abi_name, regs[len(consts)].lower())
                got = mc.regs.get(reg)
                if k < 2 and got != want[k]:
                    viol.append({
                        "key": "context:callable-argument-differs:site"
                               f"{k + 1}",
                        "msg": f"{got!r} != {want[k]:#x}"})
                for j, v in enumerate(consts):
                    r_ = c16.canon(abi_name, regs[j].lower())
                    if mc.regs.get(r_) != v:
                        viol.append({"key": "context:constant-argument-"
                                            "differs", "msg": f"arg {j}"})
                if ev["sp"] % 16:
                    viol.append({"key": "context:sp-misaligned-at-call" + (
                        f":pair:{pair}:site{k + 1}" if pair else ""),
                                 "msg": hex(ev["sp"])})
                # the callee: clobbers what it may
                for n in c16.CALLER[abi_name]:
                    mc.regs[c16.canon(abi_name, n)] = rng.getrandbits(bits)
                mc.flags = rng.getrandbits(12) | 0x8000
        if off != len(data):
            raise emu.Unsupported("undecodable tail")
    except emu.Unsupported as e:
        return {"sig": None, "violations": viol, "counters": ctr,
                "inconclusive": f"unsupported-instruction:{e}"[:200]}
    ctr["instructions_executed"] = mc.ninstr
    if len(mc.calls) != 2:
        viol.append({"key": "context:number-of-calls",
                     "msg": str(len(mc.calls))})
    if mc.sp != sp0:
        viol.append({"key": "context:sp-not-restored",
                     "msg": f"{mc.sp - sp0:+d}"})
    for n in names:
        if mc.regs[n] != init[n]:
            viol.append({"key": "context:register-not-restored", "msg": n})
            break
    if mc.flags != f_0 and not (pair and "noflags" in pair):
        viol.append({"key": "context:flags-not-restored", "msg": ""})
    for key, msg in mc.problems:
        viol.append({"key": "context:stack:" + key, "msg": msg})
    return {"sig": f"ctx:{abi_name}:{c['nconst']}:{pair}", "violations": viol,
            "counters": ctr}


def run_case(c):
    if c.get("kind") == "ctx":
        return run_ctx(c)
    from gtirb_rewriting.abi import ABI, CallingConventionDesc
    from gtirb_rewriting.assembler import Assembler
    from gtirb_rewriting.patch import InsertionContext
    from gtirb_rewriting.patches import CallPatch
    viol = []
    ctr = {"calls_reached": 0, "argument_checks": 0,
           "instructions_executed": 0, "callables_invoked": 0,
           "expected_refusals": 0}
    abi_name = c["abi"]
    isa, isa_g, fmt = c16.ABIS[abi_name]
    bits = 32 if isa == "ia32" else 64
    ptr = bits // 8
    mask = (1 << bits) - 1
    m, code, syms = make_module(abi_name)
    abi = ABI.get(m)
    seen_ctx = []

    def mk(a):
        if "int" in a:
            return a["int"]
        if "sym" in a:
            return syms[a["sym"]]
        v = a["call"]

        def fn(ctx, v=v):
            seen_ctx.append(ctx)
            # context-dependent: a second site (offset 1) gets another value
            return syms[v] if isinstance(v, str) else v ^ ctx.offset
        return fn
    args = [mk(a) for a in c["args"]]
    dreg, dalign, dclean, dshadow = DEFAULT[abi_name]
    if c["conv"]:
        cv = c["conv"]
        conv = CallingConventionDesc(tuple(cv["regs"]), cv["align"],
                                     cv["cleanup"], cv["shadow"])
        regs, align, cleanup, shadow = (cv["regs"], cv["align"],
                                        cv["cleanup"], cv["shadow"])
    else:
        conv = None
        regs, align, cleanup, shadow = dreg, dalign, dclean, dshadow
    kw = {}
    if isa != "arm64" and not c["align_stack"]:
        kw["align_stack"] = False
    try:
        patch = CallPatch(syms[c["callee"]], args, conv, **kw)
    except ValueError:
        if isa == "arm64" and (shadow or align != 16):
            ctr["expected_refusals"] += 1
            return {"sig": f"{abi_name}:conv-refused", "violations": viol,
                    "counters": ctr}
        raise
    if isa == "arm64" and (shadow or align != 16):
        viol.append({"key": "call:invalid-arm64-convention-accepted",
                     "msg": str(c["conv"])})
    cons = patch.constraints
    alloc = abi._allocate_patch_registers(cons)
    pro, epi, adj = abi._create_prologue_and_epilogue(cons, alloc, c["leaf"])
    pro, epi = list(pro), list(epi)
    if c["mode"] == "body":
        adj = c["adj"]
        pro, epi = [], []
    ictx = InsertionContext(m, None, code, 0, stack_adjustment=adj,
                            scratch_registers=alloc.scratch_registers)
    try:
        text = patch.get_asm(ictx)
    except Exception as e:  # noqa
        viol.append({"key": f"call:get_asm-raises-{type(e).__name__}",
                     "msg": repr(e)[:300]})
        return {"sig": None, "violations": viol, "counters": ctr}
    ncallables = sum(1 for a in c["args"] if "call" in a)
    ctr["callables_invoked"] = len(seen_ctx)
    if len(seen_ctx) != ncallables or any(x is not ictx for x in seen_ctx):
        viol.append({"key": "call:callable-not-given-the-context",
                     "msg": f"{len(seen_ctx)} of {ncallables}"})
    if ncallables:
        # the same patch object used at a second site: the callables run
        # again, with that site's context, and the text is what a patch built
        # from the values for that site produces
        ictx2 = InsertionContext(m, None, code, 1, stack_adjustment=adj,
                                 scratch_registers=alloc.scratch_registers)
        n0 = len(seen_ctx)
        try:
            text2 = patch.get_asm(ictx2)
            ref_args = [x["int"] if "int" in x else syms[x["sym"]]
                        if "sym" in x else syms[x["call"]]
                        if isinstance(x["call"], str) else x["call"] ^ 1
                        for x in c["args"]]
            ref = CallPatch(syms[c["callee"]], ref_args, conv,
                            **kw).get_asm(ictx2)
        except Exception as e:  # noqa
            viol.append({"key": "call:second-site-get_asm-raises-"
                                f"{type(e).__name__}", "msg": repr(e)[:300]})
        else:
            ctr["second_site_checks"] = 1
            if len(seen_ctx) - n0 != ncallables or any(
                    x is not ictx2 for x in seen_ctx[n0:]):
                viol.append({
                    "key": "call:callable-not-given-the-context:second-site",
                    "msg": f"{len(seen_ctx) - n0} of {ncallables}"})
            if text2 != ref:
                viol.append({"key": "call:second-site-text-differs",
                             "msg": f"{text2}\n---\n{ref}"[:600]})
    a = Assembler(m)
    try:
        for s in pro:
            a.assemble(s.code, s.x86_syntax)
        npro = None
        a.assemble(text, cons.x86_syntax)
        for s in epi:
            a.assemble(s.code, s.x86_syntax)
        result = a.finalize()
    except Exception as e:  # noqa
        # which argument made the text unassemblable?
        stack_big = any(
            ("int" in x or isinstance(x.get("call"), int)) and i >= len(regs)
            and not (-(1 << 31) <= (x.get("int", x.get("call"))) < (1 << 31))
            for i, x in enumerate(c["args"]))
        small_neg = isa == "arm64" and any(
            isinstance(x.get("int", x.get("call")), int)
            and -0xFFFF <= x.get("int", x.get("call")) < 0
            for x in c["args"])
        if isa == "x64" and stack_big:
            key = "call:text-rejected:x64-stack-argument-beyond-imm32"
        elif small_neg:
            key = "call:text-rejected:arm64-small-negative-immediate"
        else:
            key = f"call:text-rejected:{type(e).__name__}"
        viol.append({"key": key, "msg": f"{e!r}\n{text}"[:700]})
        return {"sig": None, "violations": viol, "counters": ctr}
    data = bytes(result.text_section.data)
    exprs = {o: e.symbol.name
             for o, e in result.text_section.symbolic_expressions.items()}
    rng = random.Random(c["seed"])
    names = [c16.canon(abi_name, r) for r in c16.ALLREGS[abi_name]]
    if isa in ("x64", "ia32"):
        names += ["rbp"]
    init = {n: rng.getrandbits(bits) for n in names}
    full = c["mode"] == "full"
    if full and (isa != "arm64" and c["align_stack"]):
        sp0 = 0x7FFF0000 + rng.choice([0, 8, 4, 12, 1])
        if isa == "arm64":
            sp0 = 0x7FFF0000
    else:
        sp0 = 0x7FFF0000        # aligned starting point (32)
    f0 = rng.getrandbits(12)
    sp_start = sp0
    if not full and adj is not None:
        sp_start = sp0 - adj
    elif not full:
        sp_start = sp0 - 0x40    # align_stack-aligned body entry
    mc = emu.Machine(isa, init, sp_start, f0, exprs=exprs,
                     red_zone=c16.RED.get(abi_name, 0) if full else 0,
                     leaf=c["leaf"] and full)
    mc.sp0 = sp_start if full else sp_start + 4096
    # split at the call: run instruction by instruction
    md = emu.irview.decoder(isa)
    off = 0
    reached = False
    nstack = max(0, len(c["args"]) - len(regs))
    try:
        mc.phase = "prologue"
        for ins in md.disasm(data, 0):
            mc.ninstr += 1
            before_calls = len(mc.calls)
            getattr(mc, "step_" + ("x86" if isa in ("x64", "ia32")
                                   else isa))(ins, off)
            off += ins.size
            if len(mc.calls) > before_calls:
                reached = True
                ev = mc.calls[-1]
                check_call(c, ev, mc, regs, align, shadow, ptr, mask, viol,
                           ctr, abi_name, isa)
                # callee: clobbers caller-saved registers and flags, pops
                # its arguments when callee-cleanup
                mc.phase = "body"
                for n in c16.CALLER[abi_name]:
                    mc.regs[c16.canon(abi_name, n)] = rng.getrandbits(bits)
                mc.flags = rng.getrandbits(12) | 0x8000
                for a_ in range(mc.sp - 64, mc.sp):
                    mc.mem[a_] = rng.getrandbits(8)
                    mc.shadow[a_] = "body"
                if not cleanup:
                    mc.sp = mc.sp + nstack * ptr
                mc.phase = "epilogue"
        if off != len(data):
            raise emu.Unsupported("undecodable tail")
    except emu.Unsupported as e:
        return {"sig": None, "violations": viol, "counters": ctr,
                "inconclusive": f"unsupported-instruction:{e}"[:200]}
    ctr["instructions_executed"] += mc.ninstr
    if not reached:
        viol.append({"key": "call:no-call-instruction", "msg": text[:300]})
    else:
        ctr["calls_reached"] += 1
    if mc.sp != sp_start:
        viol.append({"key": "call:sp-not-restored",
                     "msg": f"{mc.sp - sp_start:+d} ({c['mode']})\n{text}"[
                         :500]})
    if full:
        for key, msg in mc.problems:
            viol.append({"key": "call:stack:" + key, "msg": msg})
        for n in names:
            if mc.regs[n] != init[n]:
                viol.append({"key": "call:register-not-restored",
                             "msg": f"{n}"})
                break
        if mc.flags != f0:
            viol.append({"key": "call:flags-not-restored", "msg": ""})
    kinds = "".join(sorted({"i" if "int" in x else "s" if "sym" in x else "c"
                            for x in c["args"]}))
    sig = (f"{abi_name}:{c['mode']}:{len(c['args'])}:{min(nstack, 3)}:"
           f"{kinds}:{'custom' if c['conv'] else 'default'}:"
           f"{int(c['align_stack'])}:{adj if not full else 'p'}")
    return {"sig": sig, "violations": viol, "counters": ctr}


def check_call(c, ev, mc, regs, align, shadow, ptr, mask, viol, ctr,
               abi_name, isa):
    sp = ev["sp"]
    if ev["target"] != c["callee"]:
        viol.append({"key": "call:wrong-callee", "msg": str(ev["target"])})
    if shadow % align:
        if sp % align:
            viol.append({"key": "call:sp-misaligned:shadow-not-multiple-of-"
                                "alignment", "msg": f"{sp:#x} % {align}"})
    elif sp % align and c["mode"] == "full" and c["align_stack"] and \
            align > c16.ALIGN[abi_name] and isa != "arm64":
        # align_stack aligns to the ABI's alignment; a stricter convention is
        # outside "given an align_stack-aligned starting point"
        ctr["stricter_than_align_stack"] = ctr.get(
            "stricter_than_align_stack", 0) + 1
    elif sp % align:
        viol.append({"key": f"call:sp-misaligned-at-call:{c['mode']}",
                     "msg": f"sp {sp:#x} % {align} (adj {c['adj']})"})
    for i, a in enumerate(c["args"]):
        v = a.get("int", a.get("sym", a.get("call")))
        ctr["argument_checks"] += 1
        if i < len(regs):
            got = ev["regs"][c16.canon(abi_name, regs[i].lower())]
            where = f"reg {regs[i]}"
        else:
            addr = sp + shadow + ptr * (i - len(regs))
            saved = mc.phase
            mc.phase = "body"
            got = mc.read(addr, ptr) if all(
                (addr + k) in mc.mem for k in range(ptr)) else ("unwritten",)
            mc.phase = saved
            where = f"stack slot {i - len(regs)}"
        if isinstance(v, int):
            if got != (v & mask):
                viol.append({
                    "key": "call:integer-argument-differs:" + (
                        "register" if i < len(regs) else "stack"),
                    "msg": f"arg {i} {where}: {got!r} != {v & mask:#x} "
                           f"({v})"})
        else:
            if got == ("load", v):
                viol.append({"key": "call:symbol-argument-passed-by-value:"
                                    + isa,
                             "msg": f"arg {i} {where}: loads from {v}"})
            elif got != ("addr", v):
                viol.append({"key": "call:symbol-argument-differs",
                             "msg": f"arg {i} {where}: {got!r}"})
