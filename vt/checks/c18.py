"""C18: retarget_symbol_uses is complete and precise."""
import traceback

import gtirb
import gtirb_functions

from .. import gen_rewrite, irbuild, irview, oracles, rewrite, vocab
from ..listing import Listing
from . import rwbase

PROP = "C18"
LEVEL = "exploration"
TECHNIQUE = "reference-model monitor: before/after snapshot of every symbol mention (expressions, CFI directives, symbolForwarding, CFG) vs the listing with A renamed to B and an independent copy of the ABI attribute-conversion table"
RULE = (
    "generated modules (as C01) where symbols A are used in branch/call "
    "operands (also memory-indirect 'call *A(%rip)' whose edge is marked "
    "indirect), code data references, data words, CFI personality/LSDA "
    "directives and symbolForwarding values; 1-3 retargets per context "
    "(A,B internal/external in every combination, A also undefined "
    "without a proxy block, chains A->B,B->C, "
    "optionally with an unrelated insertion), x86-64 ELF PIE/non-PIE, "
    "x86-64 PE, IA32 PE, ARM64 PIE/non-PIE with input attributes following "
    "the ABI's internal/external convention (plus attributes no rule "
    "matches). After apply(): every expression/directive/forwarding value "
    "that mentioned A mentions B with the same addend and the attributes "
    "the conversion table gives, everything else is unchanged, and the CFG "
    "equals the control flow of the listing with A renamed to B. Invalid "
    "requests (foreign module, no referent, retargeted twice, control flow "
    "into data) must be refused. non-trivial = >=1 retargeted use compared; "
    "distinct = (abi, pie, A kind, B kind, use kinds). A quarter of the "
    "contexts also insert at a block start, a quarter also delete "
    "(instructions in front of a block's last one, or a whole code block "
    "that code follows: uses of A disappear or move, labels A/B slide)."
)
RULE += (
    " 30% of the valid scenarios continue with a second context that deletes an instruction in front of a control-flow use of A and redirects B once more; one case in 40 is a hand-built big-endian MIPS32 module whose transfers (j, b, bnez, jal) are followed by their delay slot."
)
ASSUMPTIONS = [
    "conversion table transcribed from the ABI rule docstrings of abi.py (x86-64 ELF PIE: GOT|PCREL for code refs, PLT for control flow; non-PIE: PLT; ARM64 PIE: GOT (+LO12))",
    "SymAddrAddr uses are not generated (retargeting them is documented as NotImplemented)",
]
BUDGET = {"quick": (5000, 40), "thorough": (150000, 480)}
REQUIRED_COUNTERS = ["retargeted_uses_compared", "untouched_uses_compared",
                     "edges_compared", "invalid_requests"]
A = gtirb.SymbolicExpression.Attribute
ATTR = {"GOT": A.GOT, "PCREL": A.PCREL, "PLT": A.PLT, "LO12": A.LO12,
        "TPOFF": A.TPOFF}


def rules(isa, fmt, pie):
    """[(access types, internal attrs, external attrs)]"""
    if isa == "x64" and fmt == "elf":
        if pie:
            return [({"code"}, frozenset(), frozenset({"GOT", "PCREL"})),
                    ({"cf"}, frozenset(), frozenset({"PLT"}))]
        return [({"cf", "code"}, frozenset(), frozenset({"PLT"}))]
    if isa == "arm64" and pie:
        return [({"code"}, frozenset({"LO12"}), frozenset({"LO12", "GOT"})),
                ({"code"}, frozenset(), frozenset({"GOT"}))]
    return []


def convert(isa, fmt, pie, access, attrs, old_defined, new_defined):
    hits = [r for r in rules(isa, fmt, pie)
            if access in r[0] and attrs == (r[1] if old_defined else r[2])]
    if len(hits) == 1:
        return hits[0][1] if new_defined else hits[0][2]
    return attrs


def access_of(tok):
    if tok.t == "D":
        return "data"
    return "cf" if tok.kind in ("jmp", "jcc", "call") else "code"


MIPS_XFER = {          # big-endian MIPS32, followed by the delay-slot nop
    "j": ("08000000", "branch"), "b": ("10000000", "branch"),
    "bnez": ("15000000", "cbranch"), "jal": ("0c000000", "call"),
}


def run_mips(case):
    """control transfers with a delay slot: the instruction that names A is
    not the last one of its block"""
    from gtirb_rewriting import RewritingContext
    from gtirb_test_helpers import (add_code_block, add_symbol,
                                    add_text_section, create_test_module)
    viol = []
    ctr = {"retargeted_uses_compared": 0, "edges_compared": 0,
           "untouched_uses_compared": 0, "invalid_requests": 0,
           "delay_slot_transfers": 0}
    ir, m = create_test_module(gtirb.Module.FileFormat.ELF,
                               gtirb.Module.ISA.MIPS32, ["EXEC"],
                               byte_order=gtirb.Module.ByteOrder.Big)
    _, bi = add_text_section(m, address=0x400000)
    A = add_symbol(m, "A")
    B = add_symbol(m, "B")
    nop = bytes(4)
    blocks = []
    for kind, pre in case["blocks"]:
        enc, what = MIPS_XFER[kind]
        body = bytes.fromhex("25080001") * pre + bytes.fromhex(enc) + nop
        blk = add_code_block(bi, body, {(4 * pre, 4): gtirb.SymAddrConst(
            0, A)})
        blocks.append((blk, what, 4 * pre))
    ta = add_code_block(bi, bytes.fromhex("03e00008") + nop)
    tb = add_code_block(bi, bytes.fromhex("03e00008") + nop)
    A.referent, B.referent = ta, tb
    if case.get("b_extern"):
        # internal -> external: the MIPS32 ABI defines no attribute
        # conversion, operands keep the attributes they have (none)
        tb = gtirb.ProxyBlock()
        m.proxies.add(tb)
        B.referent = tb
        ctr["mips_internal_to_external"] = 1
    ET = gtirb.Edge.Type
    seq = [b for b, _, _ in blocks] + [ta]
    for k, (blk, what, off) in enumerate(blocks):
        ir.cfg.add(gtirb.Edge(blk, ta, gtirb.Edge.Label(
            type=ET.Call if what == "call" else ET.Branch,
            conditional=what == "cbranch", direct=True)))
        if what != "branch":
            ir.cfg.add(gtirb.Edge(blk, seq[k + 1], gtirb.Edge.Label(
                type=ET.Fallthrough)))
    for t in (ta, tb):
        if isinstance(t, gtirb.ProxyBlock):
            continue
        px = gtirb.ProxyBlock()
        m.proxies.add(px)
        ir.cfg.add(gtirb.Edge(t, px, gtirb.Edge.Label(type=ET.Return)))
    ctx = RewritingContext(m, [])
    ctx.retarget_symbol_uses(A, B)
    try:
        ctx.apply()
    except Exception as x:  # noqa
        return {"sig": None, "violations": [{
            "key": f"retarget:mips:apply-raises:{type(x).__name__}",
            "msg": repr(x)[:300]}], "counters": ctr}
    for blk, what, off in blocks:
        ctr["delay_slot_transfers"] += 1
        ctr["retargeted_uses_compared"] += 1
        e = blk.byte_interval.symbolic_expressions.get(blk.offset + off)
        if e is None or e.symbol is not B:
            viol.append({"key": "retarget:retargeted-use-wrong-symbol:cf",
                         "msg": f"mips {what}: {e}"})
        elif set(e.attributes) or e.offset != 0:
            viol.append({"key": "retarget:retargeted-use-attributes:mips:"
                                "no-conversion-rule",
                         "msg": f"mips {what}: {e}"})
        tgts = [x.target for x in blk.outgoing_edges
                if x.label.type in (ET.Branch, ET.Call)]
        ctr["edges_compared"] += 1
        if tgts != [tb]:
            viol.append({
                "key": f"retarget:cfg:edge-not-moved:mips:{what}",
                "msg": f"targets {[getattr(t, 'offset', t) for t in tgts]}"})
    return {"sig": "mips:" + ",".join(f"{k}{p}" for k, p in case["blocks"]),
            "violations": viol, "counters": ctr}


def gen_case(rng, tier, index):
    if index % 40 == 39:
        return {"w": "mips", "blocks": [
            [rng.choice(sorted(MIPS_XFER)), rng.randrange(0, 3)]
            for _ in range(rng.randrange(1, 4))],
            "b_extern": index % 80 == 79}
    g = gen_rewrite.Gen(rng, tier, sym_indirect=True)
    case = g.module()
    case["edits"] = []
    # an undefined symbol may also be spelled "referent is None" (no proxy
    # block); legal as A, refused as B.  Only for names that no control-flow
    # operand mentions, so that no CFG edge depends on the missing proxy.
    cf_used = {it["t"] for b in g.all_blocks for it in b["items"]
               if it.get("t") and b["code"] and vocab.VOCAB[case["isa"]][
                   it["k"]]["kind"] != "ord"}
    case["noproxy"] = [e for e in case["externs"]
                       if e not in cf_used and rng.random() < 0.35]
    ind_used = {it["t"] for b in g.all_blocks for it in b["items"]
                if it["k"] in ("icall_sym", "ijmp_sym")}
    labels_code = list(g.callable_labels)
    externs = list(case["externs"])
    data_labels = [l for b in g.all_blocks if not b["code"]
                   for l in b["labels"]]
    used = set()
    for b in g.all_blocks:
        for it in b["items"]:
            if it.get("t"):
                used.add(it["t"])
    pool_a = [l for l in labels_code + externs + data_labels if l in used] \
        or (labels_code + externs)
    externs_b = [e for e in externs if e not in case["noproxy"]]
    pool_b = labels_code + externs_b + (data_labels if rng.random() < 0.15
                                        else [])
    n = rng.choice([1, 1, 2, 3])
    ret = []
    for _ in range(n if pool_a and pool_b else 0):
        a = rng.choice(pool_a)
        b = rng.choice(pool_b)
        if a in ind_used and b not in externs_b:
            # calls through memory keep their callee external (return edges
            # of such calls are outside the statement)
            if not externs_b:
                continue
            b = rng.choice(externs_b)
        if a == b or any(x[0] == a for x in ret):
            continue
        ret.append([a, b])
    if ret and rng.random() < 0.3 and len(pool_b) > 1:
        # chain
        c = rng.choice(pool_b)
        if ret[0][1] in ind_used and c not in externs_b:
            c = ret[0][1]
        if c != ret[0][1] and not any(x[0] == ret[0][1] for x in ret):
            ret.append([ret[0][1], c])
    case["retargets"] = ret
    syms = labels_code + externs
    case["cfi"] = [[rng.choice(labels_code) if labels_code else None,
                    rng.choice([".cfi_personality", ".cfi_lsda"]),
                    rng.choice(syms)] for _ in range(rng.randrange(0, 3))] \
        if labels_code else []
    case["fwd"] = [[rng.choice(syms), rng.choice(syms)]
                   for _ in range(rng.randrange(0, 3))]
    case["odd_attrs"] = rng.random() < 0.2
    case["attr_seed"] = rng.randrange(1 << 30)
    case["invalid"] = rng.choice([None, None, None, "foreign", "noreferent",
                                  "twice"])
    if ret and case["invalid"] is None and rng.random() < 0.3:
        # second context: B (the new name of the first retarget) goes on to C
        a0, b0 = ret[0]
        cs = [x for x in (externs_b if b0 in ind_used or any(
                          p[0] in ind_used for p in ret if p[1] == b0)
                          else labels_code + externs_b)
              if x not in (a0, b0) and not any(p[0] == x for p in ret)]
        xs = [b for b in g.code_blocks if len(b["items"]) >= 2 and
              b["items"][-1].get("t") == a0 and vocab.VOCAB[case["isa"]][
                  b["items"][-1]["k"]]["kind"] in ("jmp", "jcc", "call")]
        if cs and xs and not any(p[0] == b0 for p in ret):
            blk = rng.choice(xs)
            case["second"] = {
                "retarget": [b0, rng.choice(cs)],
                "edit": {"op": "del", "b": blk["id"], "i": 0, "n": 1,
                         "proxy": False}}
    r = rng.random()
    if case.get("second"):
        # (the first context leaves the blocks alone, so that the second
        # one can still name them)
        pass
    elif r < 0.25 and g.code_blocks:
        blk = rng.choice([b for b in g.code_blocks if b["items"]])
        case["edits"] = [{"op": "ins", "b": blk["id"], "i": 0,
                          "p": {"lines": [{"k": "mark",
                                           "imm": g.mark(0)}]}}]
    elif r < 0.5:
        # deletions in the same context: instructions in front of a block's
        # last one (uses of A among them disappear, the others move), or a
        # whole code block that code follows (its labels - A or B among
        # them - slide)
        seq = [b for b in g.all_blocks]
        for _ in range(rng.choice([1, 1, 2])):
            cands = [b for b in g.code_blocks if len(b["items"]) >= 2 and
                     not any(e["b"] == b["id"] for e in case["edits"])]
            # (not the return site of a call: where its return edges then
            # belong is C03's subject and known finding F13 blurs it)
            whole = [b for k, b in enumerate(seq[:-1])
                     if b["code"] and b["items"] and seq[k + 1]["code"] and
                     seq[k + 1]["items"] and not (
                         k and seq[k - 1]["code"] and seq[k - 1]["items"] and
                         vocab.VOCAB[case["isa"]][seq[k - 1]["items"][-1][
                             "k"]]["kind"] in ("call", "icall")) and
                     not any(e["b"] == b["id"] for e in case["edits"]) and
                     not any(b["id"] in f["entries"]
                             for f in case["funcs"])]
            if whole and rng.random() < 0.3:
                b = rng.choice(whole)
                case["edits"].append({"op": "del", "b": b["id"], "i": 0,
                                      "n": len(b["items"]), "proxy": False})
            elif cands:
                b = rng.choice(cands)
                i = rng.randrange(0, len(b["items"]) - 1)
                n = rng.randrange(1, len(b["items"]) - i)
                case["edits"].append({"op": "del", "b": b["id"], "i": i,
                                      "n": n, "proxy": False})
    return case


def run_case(case):
    if case.get("w") == "mips":
        return run_mips(case)
    import random
    viol = []
    ctr = {"retargeted_uses_compared": 0, "untouched_uses_compared": 0,
           "edges_compared": 0, "invalid_requests": 0}
    isa, fmt, pie = case["isa"], case["fmt"], case.get("pie", False)
    if any(e["op"] == "del" for e in case["edits"]):
        ctr["contexts_that_also_delete"] = 1
    arng = random.Random(case["attr_seed"])
    bu, lst0 = irbuild.build(case, random.Random("uuid:0"))
    bu.item_offsets = {bid: lst0.item_offsets(bid) for bid in lst0.block_info}
    m = bu.module
    externs = set(case["externs"])
    for nme in case.get("noproxy", []):
        sym = bu.symbols[nme]
        px = sym.referent
        sym.referent = None
        if isinstance(px, gtirb.ProxyBlock) and not any(px.references):
            m.proxies.discard(px)
    # input attributes following the ABI convention
    tok_attrs = {}
    for si, ii, t in lst0.all_tokens():
        if t.t in "ID" and t.target is not None:
            defined = t.target not in externs
            acc = access_of(t)
            cands = [r for r in rules(isa, fmt, pie) if acc in r[0]]
            attrs = frozenset()
            if cands:
                r = arng.choice(cands)
                attrs = r[1] if defined else r[2]
            if case["odd_attrs"] and arng.random() < 0.3:
                attrs = frozenset({"TPOFF"})
            tok_attrs[t.uid] = attrs
            bi = bu.intervals[si][ii]
            e = bi.symbolic_expressions[t.ivpos + t.sym[0]]
            bi.symbolic_expressions[t.ivpos + t.sym[0]] = \
                gtirb.SymAddrConst(e.offset, e.symbol,
                                   {ATTR[a] for a in attrs})
    NULL = __import__("uuid").UUID(int=0)
    cfi = m.aux_data["cfiDirectives"].data
    cfi_in = []
    key_label = {}
    for lab, d, symname in case["cfi"]:
        blk = bu.symbols[lab].referent
        key = gtirb.Offset(blk, 0)
        if key not in cfi:
            cfi[key] = [(".cfi_startproc", [], NULL)]
        cfi[key].append((d, [0x1b], bu.symbols[symname]))
        cfi_in.append((key, len(cfi[key]) - 1, d, symname))
        key_label[id(key)] = lab
    fwd = m.aux_data["symbolForwarding"].data
    fwd_in = {}
    for k, v in case["fwd"]:
        fwd[bu.symbols[k]] = bu.symbols[v]
        fwd_in[k] = v
    from gtirb_rewriting import RewritingContext
    functions = gtirb_functions.Function.build_functions(m)
    ctx = RewritingContext(m, functions)
    rec = rewrite.Recorder()
    rewrite.install()
    rewrite.register_edits(case, bu, ctx, rec, functions)
    ren = {}
    # invalid requests must be refused at registration
    inv = case["invalid"]
    if inv and case["retargets"]:
        ctr["invalid_requests"] += 1
        a0, b0 = case["retargets"][0]
        try:
            if inv == "foreign":
                ir2, m2 = irbuild.create_test_module(
                    irbuild.FMT[fmt], irbuild.ISA[isa])
                foreign = gtirb.Symbol("zz", payload=gtirb.ProxyBlock())
                foreign.module = m2
                if arng.random() < 0.5:
                    ctx.retarget_symbol_uses(foreign, bu.symbols[b0])
                else:
                    ctx.retarget_symbol_uses(bu.symbols[a0], foreign)
            elif inv == "noreferent":
                s = gtirb.Symbol("noref", payload=None)
                s.module = m
                ctx.retarget_symbol_uses(bu.symbols[a0], s)
            elif inv == "twice":
                ctx.retarget_symbol_uses(bu.symbols[a0], bu.symbols[b0])
                ren[a0] = b0
                ctx.retarget_symbol_uses(bu.symbols[a0], bu.symbols[b0])
            viol.append({"key": f"retarget:invalid-request-accepted:{inv}",
                         "msg": ""})
        except ValueError:
            pass
        except Exception as exc:  # noqa
            viol.append({
                "key": f"retarget:invalid-request-raises-"
                       f"{type(exc).__name__}:{inv}", "msg": repr(exc)[:200]})
    for a, b in case["retargets"]:
        if a in ren:
            continue
        ctx.retarget_symbol_uses(bu.symbols[a], bu.symbols[b])
        ren[a] = b
    # control flow into data must be refused (at apply)
    data_syms = {l for s in case["secs"] for iv in s["ivs"]
                 for blk in iv["blocks"] if not blk["code"]
                 for l in blk["labels"] + blk["elabels"]}
    cf_into_data = False
    for si, ii, t in rewrite.expected(case).all_tokens():
        # (instructions the same context deletes no longer count)
        if t.t == "I" and t.patch is None and t.target in ren and \
                access_of(t) == "cf" and ren[t.target] in data_syms:
            cf_into_data = True
    exc = None
    try:
        ctx.apply()
    except Exception as x:  # noqa
        exc = x
    if cf_into_data:
        ctr["invalid_requests"] += 1
        if exc is None:
            viol.append({"key": "retarget:control-flow-into-data-accepted",
                         "msg": ""})
        return {"sig": f"{isa}-{fmt}:cf-into-data", "violations": viol,
                "counters": ctr}
    if exc is not None:
        kind, key = oracles.classify_apply_exception(case, exc)
        msg = "".join(traceback.format_exception(
            type(exc), exc, exc.__traceback__))[-1500:]
        viol.append({"key": "retarget:" + key, "msg": msg})
        return {"sig": None, "violations": viol, "counters": ctr}
    def verify(case, chain, tag_sfx):
        """compare the module with the listing edited by case['edits'] in
        which every operand name went through the renamings of `chain`"""
        def final(name):
            for r in chain:
                name = r.get(name, name)
            return name
        ren = {n: final(n) for r in chain for n in r if final(n) != n}
        # ---- expected listing: A renamed to B everywhere it is an operand
        lst = rewrite.expected(case)
        for si, ii, t in lst.all_tokens():
            if t.t in "ID" and t.target in ren and t.patch is None:
                t.orig_target = t.target
                t.target = ren[t.target]
        lst.layout()
        ob = irview.observe(bu, isa)
        kinds = set()
        by_name = {}
        for s in m.symbols:
            by_name.setdefault(s.name, []).append(s)
        for si, ivs in enumerate(lst.secs):
            for ii, toks in enumerate(ivs):
                bi = bu.intervals[si][ii]
                for t in toks:
                    if t.t not in "ID" or t.target is None or t.patch is not None:
                        continue
                    e = bi.symbolic_expressions.get(t.ivpos + t.sym[0])
                    was = getattr(t, "orig_target", None)
                    acc = access_of(t)
                    if e is None:
                        viol.append({"key": "retarget:expression-lost",
                                     "msg": f"{t.key}"})
                        continue
                    want_sym = bu.symbols[t.target]
                    attrs_in = tok_attrs[t.uid]
                    if was is not None:
                        ctr["retargeted_uses_compared"] += 1
                        kinds.add(acc)
                        cur, want_attrs = was, attrs_in
                        for r in chain:
                            nxt = r.get(cur, cur)
                            if nxt != cur:
                                want_attrs = convert(
                                    isa, fmt, pie, acc, want_attrs,
                                    cur not in externs, nxt not in externs)
                                cur = nxt
                        tag = "retargeted"
                    else:
                        ctr["untouched_uses_compared"] += 1
                        want_attrs = attrs_in
                        tag = "untouched"
                    if e.symbol is not want_sym:
                        viol.append({
                            "key": f"retarget:{tag}-use-wrong-symbol:{acc}",
                            "msg": f"{t.key}: {e.symbol.name} != {t.target}"})
                    if e.offset != t.addend:
                        viol.append({"key": f"retarget:{tag}-use-addend:{acc}",
                                     "msg": f"{e.offset} != {t.addend}"})
                    got_attrs = frozenset(a.name for a in e.attributes)
                    if got_attrs != want_attrs:
                        viol.append({
                            "key": f"retarget:{tag}-use-attributes:{acc}:"
                                   f"{'int' if (was or t.target) not in externs else 'ext'}"
                                   f"-to-{'int' if t.target not in externs else 'ext'}",
                            "msg": f"{t.key} {sorted(attrs_in)} -> "
                                   f"{sorted(got_attrs)} expected "
                                   f"{sorted(want_attrs)}"})
        # CFI directives
        cfi = m.aux_data["cfiDirectives"].data
        for key, idx, d, symname in cfi_in:
            ds = cfi.get(key)
            want = ren.get(symname, symname)
            ctr["retargeted_uses_compared" if symname in ren
                else "untouched_uses_compared"] += 1
            if symname in ren:
                kinds.add("cfi")
            if ds is None or idx >= len(ds) or case["edits"]:
                # the block may have been split by the insertion at offset 0, or
                # deleted (its directives move on): look for the directive
                # anywhere
                every = [x for dl in cfi.values() for x in dl
                         if x[0] == d and isinstance(x[2], gtirb.Symbol)]
                blk_deleted = any(
                    e["op"] == "del" and e["i"] == 0 and
                    e["n"] == len(lst0.block_info[e["b"]]["blk"]["items"]) and
                    lab in lst0.block_info[e["b"]]["blk"]["labels"]
                    for e in case["edits"]
                    for lab in [key_label[id(key)]])
                if not any(x[2].name == want for x in every) and \
                        not blk_deleted:
                    viol.append({"key": "retarget:cfi-directive-lost",
                                 "msg": d})
                want_all = sorted(ren.get(s2, s2)
                                  for _, _, d2, s2 in cfi_in if d2 == d)
                got_all = sorted(x[2].name for x in every)
                if got_all != want_all and not blk_deleted and not any(
                        e["op"] == "del" and e["i"] == 0 and e["n"] == len(
                            lst0.block_info[e["b"]]["blk"]["items"])
                        for e in case["edits"]):
                    viol.append({"key": "retarget:cfi-directive-symbol",
                                 "msg": f"{d}: {got_all} != {want_all}"})
                continue
            if ds[idx][2] is not bu.symbols[want] or ds[idx][1] != [0x1b]:
                viol.append({"key": "retarget:cfi-directive-symbol",
                             "msg": f"{d}: {getattr(ds[idx][2], 'name', ds[idx][2])}"
                                    f" != {want}"})
        # symbolForwarding
        fwd = m.aux_data["symbolForwarding"].data
        got_fwd = {k.name: v.name for k, v in fwd.items()}
        want_fwd = {k: ren.get(v, v) for k, v in fwd_in.items()}
        for k in fwd_in:
            ctr["retargeted_uses_compared" if fwd_in[k] in ren
                else "untouched_uses_compared"] += 1
            if fwd_in[k] in ren:
                kinds.add("fwd")
        if got_fwd != want_fwd:
            viol.append({"key": "retarget:symbol-forwarding-differs",
                         "msg": f"{got_fwd} != {want_fwd}"})
        # CFG
        v, c = oracles.check_cfg(rewrite.Run.__new__(rewrite.Run), lst, ob) \
            if False else cfg_check(case, bu, lst, ob)
        for x in v:
            x["key"] = "retarget:" + x["key"]
        viol.extend(v)
        ctr["edges_compared"] += c.get("edges_compared", 0)
        return kinds

    kinds = verify(case, [ren], "")
    sec = case.get("second")
    if sec and not viol and not inv:
        # a second context over the rewritten module: an instruction in front
        # of a control-flow use is deleted and the new name is redirected
        # once more (whatever the first context left in caches keyed by
        # blocks or symbols is stale now)
        n0 = len(viol)
        ctx2 = RewritingContext(m, gtirb_functions.Function.build_functions(m))
        case2 = dict(case, edits=[sec["edit"]])
        rewrite.register_edits(case2, bu, ctx2, rec,
                               gtirb_functions.Function.build_functions(m))
        ren2 = {sec["retarget"][0]: sec["retarget"][1]}
        ctx2.retarget_symbol_uses(bu.symbols[sec["retarget"][0]],
                                  bu.symbols[sec["retarget"][1]])
        try:
            ctx2.apply()
        except Exception as x:  # noqa
            viol.append({"key": "retarget:second-context-raises:" +
                                type(x).__name__, "msg": repr(x)[:300]})
        else:
            ctr["second_contexts"] = 1
            verify(dict(case, edits=case["edits"] + [sec["edit"]]),
                   [ren, ren2], "")
            for x in viol[n0:]:
                x["msg"] = "(after the second context) " + x["msg"]

    def kind(n):
        return "ext" if n in externs else (
            "data" if n in data_syms else "int")
    sig = None
    if ren and (ctr["retargeted_uses_compared"]):
        sig = (f"{isa}-{fmt}-{'pie' if pie else 'nopie'}:" + ",".join(
            sorted(f"{kind(a)}>{kind(b)}" for a, b in ren.items())) + ":" +
            ",".join(sorted(kinds)) + (":odd" if case["odd_attrs"] else ""))
    return {"sig": sig, "violations": viol, "counters": ctr}


def cfg_check(case, bu, lst, ob):
    r = rewrite.Run()
    r.case = case
    r.bu = bu
    return oracles.check_cfg(r, lst, ob)
