"""C08: rewriting preserves call-frame (unwind) information."""
import random
import traceback
import uuid as uuidlib

import gtirb

from .. import dwarfref as R
from .. import gen_rewrite, irbuild, irview, oracles, rewrite, vocab
from . import rwbase

PROP = "C08"
LEVEL = "exploration"
TECHNIQUE = "reference-model monitor: independent CFI interpreter evaluated over the input and the rewritten module, projected onto instruction identities through the listing model; the library's own evaluator must also accept the output"
RULE = (
    "generated modules (as C01) with 0-4 CFI procedures (directives at "
    "block starts, instruction boundaries and block ends, personality/LSDA "
    "symbols, remember/restore pairs, endproc and startproc sharing an "
    "offset) and edit sets placed at and around directive positions and "
    "procedure boundaries; patches carry no CFI, a balanced "
    "adjust_cfa_offset pair or a remember/restore pair. Judged: the output "
    "evaluates cleanly with the reference interpreter and with "
    "evaluate_cfi_directives; procedures are opened and closed the same "
    "number of times in the same order (a procedure all of whose "
    "instructions were deleted may vanish as a balanced pair); every "
    "surviving original instruction keeps its in/out-of-procedure status "
    "and, when nothing is deleted, its unwind state; patch instructions "
    "inserted inside a procedure are inside it with the insertion-point "
    "state plus the patch's own directives; structural directives and the "
    "directives owned by surviving instructions never disappear. "
    "non-trivial = >=1 procedure, >=1 edit and >=1 state compared."
    " The bytes of every scenario are also compared with the listing (cfi:bytes:*); 30% of the adjust-style patches have a temporary label in front of their closing directive; 10% of the IRs hold a twin module whose CFI table, bytes, blocks and symbols must stay as they were."
)
RULE += (
    " 15% of the procedures begin behind / end in front of their block's outer instructions;"
    " 15% of the scenarios insert a whole function written with explicit procedures (one or two abutting ones, labels right behind startproc/endproc), whose directives must evaluate with each procedure opened and closed once;"
    " outputs in which two zero-sized blocks at one address both carry directives have no defined order and are counted, not judged."
)
ASSUMPTIONS = [
    "a directive located after an instruction (same block) is owned by that instruction; directives at a block's offset 0 other than startproc are the procedure's initial state",
    "procedures do not span byte intervals (the final re-layout may permute unconnected intervals)",
]
BUDGET = {"quick": (5000, 40), "thorough": (150000, 480)}
REQUIRED_COUNTERS = ["states_compared", "procedures", "outputs_evaluated"]
STRUCT = {".cfi_startproc", ".cfi_endproc", ".cfi_remember_state",
          ".cfi_restore_state"}
NULL = uuidlib.UUID(int=0)


def gen_case(rng, tier, index):
    g = gen_rewrite.Gen(rng, tier, isa=("x64", "elf"),
                        other_sections=False)
    case = g.module()
    # procedures: runs of consecutive code blocks inside one interval
    nproc = 0
    for sec in case["secs"]:
        if not sec["exec"]:
            continue
        for iv in sec["ivs"]:
            blocks = [b for b in iv["blocks"] if b["code"] and b["items"]]
            i = 0
            prev_end_shared = False
            while i < len(blocks):
                if rng.random() < 0.3:
                    i += 1
                    continue
                run = blocks[i:i + rng.choice([1, 1, 2, 3])]
                i += len(run)
                nproc += 1
                first, last = run[0], run[-1]
                start = [[".cfi_startproc", [], None]]
                if rng.random() < 0.25:
                    start.append([rng.choice([".cfi_personality",
                                              ".cfi_lsda"]), [0x9B],
                                  rng.choice(case["externs"])])
                # the CFA is always defined with the procedure's initial
                # state, so that dropping the directives of deleted
                # instructions can never leave it undefined
                rng.random()
                start.append([".cfi_def_cfa", [7, 8], None])
                has_cfa = True
                # (a procedure may begin behind the first instructions of its
                # block - patchable-entry nops - and end in front of the last
                # ones - padding)
                s0 = 1 if len(first["items"]) >= 3 and \
                    rng.random() < 0.15 else 0
                e0 = len(last["items"]) - 1 if len(last["items"]) >= 3 and \
                    rng.random() < 0.15 else len(last["items"])
                first.setdefault("cfi", {}).setdefault(str(s0), [])
                first["cfi"][str(s0)] = first["cfi"][str(s0)] + start
                depth = 0
                for b in run:
                    n = len(b["items"])
                    for k in range(1, n + 1):
                        if (b is first and k <= s0) or \
                                (b is last and k >= e0):
                            continue
                        if rng.random() > 0.35:
                            continue
                        r = rng.random()
                        if r < 0.3 and has_cfa:
                            d = [".cfi_def_cfa_offset",
                                 [rng.choice([16, 24, 32])], None]
                        elif r < 0.5:
                            d = [".cfi_offset", [rng.choice([3, 6, 12]),
                                                 -rng.choice([16, 24])],
                                 None]
                        elif r < 0.6 and has_cfa:
                            d = [".cfi_adjust_cfa_offset",
                                 [rng.choice([8, -8])], None]
                        elif r < 0.75:
                            d = [".cfi_remember_state", [], None]
                            depth += 1
                        elif r < 0.88 and depth:
                            d = [".cfi_restore_state", [], None]
                            depth -= 1
                        elif r < 0.94:
                            d = [".cfi_undefined", [rng.choice([3, 12])],
                                 None]
                        else:
                            d = [".cfi_def_cfa", [6, 16], None]
                            has_cfa = True
                        b.setdefault("cfi", {}).setdefault(str(k), []
                                                           ).append(d)
                last.setdefault("cfi", {}).setdefault(str(e0), []).append(
                    [".cfi_endproc", [], None])
    g.edits()
    # patch CFI
    for e in case["edits"]:
        p = e.get("p")
        if p and "lines" in p and rng.random() < 0.4:
            blk = rwbase.find_block(case, e["b"])
            if not blk["code"]:
                continue
            kind = rng.choice(["adjust", "remember"])
            body = [ln for ln in p["lines"]]
            if kind == "adjust":
                p["lines"] = [body[0],
                              {"raw": ".cfi_adjust_cfa_offset 8",
                               "cfi": [".cfi_adjust_cfa_offset", [8]]}] + \
                    body[1:] + [{"k": "nop"}] + (
                        # sometimes a label stands in front of the closing
                        # directive: the patch's last block is empty, holds
                        # a label and the directive
                        [{"l": f".Lpt{case['edits'].index(e)}_t",
                          "temp": True}]
                        if random.Random(
                            f"tl:{index}:{case['edits'].index(e)}"
                        ).random() < 0.3 else []) + [
                                {"raw": ".cfi_adjust_cfa_offset -8",
                                 "cfi": [".cfi_adjust_cfa_offset", [-8]]}]
            else:
                # sometimes a label stands between the two directives (the
                # assembler then starts a new, still empty, block there)
                mid = [{"l": f"pt{case['edits'].index(e)}_c"}] \
                    if rng.random() < 0.4 else []
                p["lines"] = [body[0],
                              {"raw": ".cfi_remember_state",
                               "cfi": [".cfi_remember_state", []]}] + mid + [
                              {"raw": ".cfi_undefined 13",
                               "cfi": [".cfi_undefined", [13]]}] + \
                    body[1:] + [
                        # sometimes the patch leaves through a jump and the
                        # closing directive stands behind it
                        {"k": "jmp", "t": rng.choice(g.code_labels)}
                        if g.code_labels and rng.random() < 0.3
                        else {"k": "nop"},
                        {"raw": ".cfi_restore_state",
                         "cfi": [".cfi_restore_state", []]}]
            p["cfi_kind"] = kind
    case["nproc"] = nproc
    if rng.random() < 0.15:
        # a whole function added by the same rewrite, written the way a
        # compiler writes one: explicit procedures (one or two abutting
        # ones), labels right behind .cfi_startproc / .cfi_endproc
        def cfi(name, *args):
            return {"raw": name + (" " + ", ".join(map(str, args))
                                   if args else ""),
                    "cfi": [name, list(args)]}
        lines = [cfi(".cfi_startproc")]
        if rng.random() < 0.4:
            lines.append({"l": "nf0_begin"})
        lines.append(cfi(".cfi_def_cfa", 7, 8))
        lines += [{"k": "mark", "imm": gen_rewrite.MARK_BASE + 0x8000},
                  cfi(".cfi_def_cfa_offset", 16), {"k": "nop"},
                  cfi(".cfi_def_cfa_offset", 8), {"k": "ret"},
                  cfi(".cfi_endproc")]
        if rng.random() < 0.5:
            lines.append({"l": ".Lnf0_end", "temp": True})
        if rng.random() < 0.5:
            lines += [{"l": "nf0_helper"}, cfi(".cfi_startproc"),
                      cfi(".cfi_def_cfa", 7, 8),
                      {"k": "nop"}, {"k": "ret"}, cfi(".cfi_endproc")]
            if rng.random() < 0.5:
                lines.append({"l": ".Lnf0_end2", "temp": True})
        case["newfuncs"] = [{"name": "newfn0", "p": {"lines": lines}}]
    if random.Random(f"c08-bystander:{index}").random() < 0.1:
        # a twin module with the same procedures in the same IR
        case["bystander"] = "twin"
    return case


def after_patch_with_trailing_directives(case, eid):
    """was edit eid placed at the boundary at which an earlier-applied patch
    ended in an unconditional transfer followed only by CFI directives?"""
    from .. import vocab
    e = case["edits"][eid]
    for k, o in enumerate(case["edits"]):
        if k == eid or o.get("op") not in ("ins", "rep") or \
                o.get("b") != e.get("b") or "lines" not in o.get("p", {}):
            continue
        if o["i"] + o.get("n", 0) != e["i"] or not (
                (o["i"], k) < (e["i"], eid)):
            continue
        lines = o["p"]["lines"]
        last_i = max((j for j, ln in enumerate(lines)
                      if "k" in ln and ln["k"] != "bytes"), default=None)
        if last_i is None:
            continue
        kind = vocab.VOCAB[case["isa"]][lines[last_i]["k"]]["kind"]
        if kind in ("jmp", "ret", "ijmp", "halt") and any(
                "raw" in ln for ln in lines[last_i + 1:]):
            return "jump"
        # ... or in a label followed only by directives: the patch's last
        # block is empty again
        tail = lines[last_i + 1:]
        if any("l" in ln for ln in tail) and "raw" in tail[-1] and any(
                "l" in ln for ln in tail[:max(
                    j for j, ln in enumerate(tail) if "raw" in ln)]):
            return "label"
    return False


def cfi_patch_into_wholly_deleted_procedure(case):
    """is a patch that carries CFI inserted into (or at the very end of) a
    procedure all of whose instructions the same rewrite deletes?"""
    gone = set()
    for e in case["edits"]:
        if e["op"] == "delfn":
            for bid in next(f["blocks"] for f in case["funcs"]
                            if f["name"] == e["f"]):
                gone |= {(bid, k) for k in range(64)}
        elif e["op"] in ("del", "rep"):
            gone |= {(e["b"], k) for k in range(e["i"], e["i"] + e["n"])}
    for sec in case["secs"]:
        for iv in sec["ivs"]:
            cur = None         # instructions and boundaries of the open one
            procs = []
            for blk in iv["blocks"]:
                cfi = blk.get("cfi") or {}
                for k in range(len(blk["items"]) + 1):
                    for d in cfi.get(str(k), []):
                        if d[0] == ".cfi_startproc":
                            cur = {"ins": set(), "pts": set()}
                        elif d[0] == ".cfi_endproc" and cur is not None:
                            cur["pts"].add((blk["id"], k))
                            procs.append(cur)
                            cur = None
                    if cur is not None:
                        cur["pts"].add((blk["id"], k))
                        if k < len(blk["items"]):
                            cur["ins"].add((blk["id"], k))
            for pr in procs:
                if pr["ins"] and pr["ins"] <= gone and any(
                        e.get("op") in ("ins", "rep") and
                        e.get("p", {}).get("cfi_kind") and
                        (e["b"], e["i"]) in pr["pts"]
                        for e in case["edits"]):
                    return True
    return False


def boundary_inside_adjacent_deletion(case, blk, b, i):
    for e in case["edits"]:
        if e.get("b") != b or e["op"] not in ("del", "rep"):
            continue
        lo, hi = e["i"], e["i"] + e.get("n", 0)
        if i not in (lo, hi):
            continue
        for k, ds in (blk.get("cfi") or {}).items():
            if lo <= int(k) <= hi and int(k) != i and hi > lo and any(
                    d[0] in (".cfi_startproc", ".cfi_endproc") for d in ds):
                return True
    return False


def module_locations(bu, ob):
    """[(section, pos, order, [(name,args,symname)])] in address order"""
    m = bu.module
    table = m.aux_data["cfiDirectives"].data
    locs = []
    known = {id(bi) for row in bu.intervals for bi in row}
    for off, ds in table.items():
        blk = off.element_id
        if not isinstance(blk, gtirb.CodeBlock):
            locs.append(("bad", "non-code-element"))
            continue
        if blk.byte_interval is not None and \
                id(blk.byte_interval) not in known:
            continue      # an inserted function: new_function_locations
        p = ob.blockpos(blk)
        if p is None:
            locs.append(("bad", "detached-block"))
            continue
        if not (0 <= off.displacement <= blk.size):
            locs.append(("bad", "displacement-outside-block"))
            continue
        # (a zero-sized block stands in front of the block at its address)
        locs.append((p[0], p[1] + off.displacement,
                     p[1] - (0 if blk.size else 0.5),
                     [(d[0], list(d[1]), d[2].name if isinstance(
                         d[2], gtirb.Symbol) else None) for d in ds]))
    return locs


def new_function_locations(bu):
    """directives of the code in intervals the rewrite added, per interval"""
    known = {id(bi) for row in bu.intervals for bi in row}
    out = {}
    table = bu.module.aux_data["cfiDirectives"].data
    for off, ds in table.items():
        blk = off.element_id
        bi = getattr(blk, "byte_interval", None)
        if bi is None or id(bi) in known or not isinstance(
                blk, gtirb.CodeBlock):
            continue
        out.setdefault(id(bi), []).append(
            (0, blk.offset + off.displacement,
             blk.offset - (0 if blk.size else 0.5),
             [(d[0], list(d[1]), d[2].name if isinstance(
                 d[2], gtirb.Symbol) else None) for d in ds]))
    return list(out.values())


def evaluate(locs):
    """-> (timeline per section [(pos, snapshot)], error)"""
    good = sorted((x for x in locs if x[0] != "bad"),
                  key=lambda x: (x[0], x[1], x[2]))
    seq = [((s, p, k), ds) for k, (s, p, bp, ds) in enumerate(good)]
    timeline = []
    try:
        for (s, p, k), snap in R.interpret(seq, 16, "little", 8):
            timeline.append((s, p, snap))
    except (R.CfiError, R.CfiUnsupported) as e:
        return timeline, f"{type(e).__name__}:{e}"
    return timeline, None


def state_at(timeline, sec, pos):
    cur = None
    for (s, p, snap) in timeline:
        if s != sec:
            if s > sec:
                break
            cur = None
            continue
        if p <= pos:
            cur = snap
        else:
            break
    return cur


def strip(snap):
    if snap is None:
        return None
    return {k: snap[k] for k in ("cfa", "regs", "stack", "personality",
                                 "lsda", "return_column")}


def run_case(case):
    viol = []
    ctr = {"states_compared": 0, "procedures": 0, "outputs_evaluated": 0,
           "patch_states_compared": 0, "directives_tracked": 0}
    isa = case["isa"]
    state = {}

    def before(r):
        ob0 = irview.observe(r.bu, isa)
        state["locs0"] = module_locations(r.bu, ob0)
    r = rewrite.run(case, before_apply=before)
    ch = rewrite.bystander_changes(r)
    if ch is not None:
        ctr["bystander_modules_compared"] = 1
        for f in ch:
            if f in ("aux:cfiDirectives", "bytes", "blocks", "symbols"):
                viol.append({"key": "cfi:bystander-module-changed:" + f,
                             "msg": "the twin module's " + f + " differ "
                                    "from before the rewrite"})
    if r.exception is not None:
        kind, key = oracles.classify_apply_exception(case, r.exception)
        if kind == "raised":
            viol.append({"key": "cfi:" + key, "msg": "".join(
                traceback.format_exception(
                    type(r.exception), r.exception,
                    r.exception.__traceback__))[-1500:]})
        return {"sig": None, "violations": viol, "counters": ctr}
    lst0 = r.lst0
    lst = rewrite.expected(case)
    lst.layout()
    ob = irview.observe(r.bu, isa)
    # the bytes the directives are attached to: a rewrite that leaves
    # replaced instructions behind (or loses some) where directives stand
    # inside the edited range also leaves their states describing the wrong
    # code
    exp_bytes = lst.layout()
    predicted = True
    for rec in r.rec.assembled:
        if rec["summary"] is None or rec["patch"].eid >= 1000:
            continue
        e_ = case["edits"][rec["patch"].eid]
        want = b"".join(t.data for t in lst.patch_tokens(
            e_["p"]["lines"], rec["patch"].eid, None))
        if rec["summary"]["text"] != want:
            predicted = False
    if predicted:
        v_, c_ = oracles.check_bytes(r, lst, ob, exp_bytes)
        ctr["bytes_compared_under_cfi"] = c_.get("bytes_compared", 0)
        for x in v_:
            if x["key"] == "bytes:unexpected-new-interval":
                continue    # (the function this check inserts itself)
            viol.append({"key": "cfi:" + x["key"], "msg": x["msg"]})
    tl0, err0 = evaluate(state["locs0"])
    if err0:
        return {"sig": None, "violations": [], "counters": ctr,
                "inconclusive": "generated-input-does-not-evaluate:" + err0}
    locs1 = module_locations(r.bu, ob)
    for x in locs1:
        if x[0] == "bad":
            viol.append({"key": "cfi:directive-on-" + x[1], "msg": ""})
    zs = [(x[0], x[1]) for x in locs1
          if x[0] != "bad" and x[2] != int(x[2])]
    if len(zs) != len(set(zs)):
        # two zero-sized blocks at one address both carry directives: the IR
        # gives them no order, so neither does it give the directives one
        ctr["unordered_zero_sized_cfi_blocks"] = 1
        return {"sig": None, "violations": viol, "counters": ctr}
    tl1, err1 = evaluate(locs1)
    ctr["outputs_evaluated"] += 1
    deleted_any = any(e["op"] in ("del", "rep", "delfn") and (
        e["op"] == "delfn" or e.get("n", 0) > 0) for e in case["edits"])
    if err1:
        ctx = "with-deletion" if deleted_any else "insertions-only"
        if cfi_patch_into_wholly_deleted_procedure(case):
            # (F55)
            ctx += ":cfi-patch-at-a-procedure-deleted-in-the-same-rewrite"
        elif any(isinstance(e.get("p"), dict) and e["p"].get("cfi_kind") and
                 boundary_inside_adjacent_deletion(
                     case, rwbase.find_block(case, e["b"]), e["b"], e["i"])
                 for e in case["edits"] if e.get("op") in ("ins", "rep")):
            # (F55, second form) the boundary is not deleted but re-homed
            # to the insertion point, behind / in front of the patch
            ctx += ":cfi-patch-next-to-a-deleted-range-holding-a-boundary"
        viol.append({"key": f"cfi:output-does-not-evaluate:{ctx}:"
                            f"{err1.split(':')[1][:40]}",
                     "msg": err1})
    # the library's own evaluator must accept it as well
    try:
        from gtirb_rewriting.dwarf.cfi_eval import evaluate_cfi_directives
        from . import c09
        # lay the module out in the original interval order first (the
        # library's final re-layout may permute unconnected intervals, F34)
        c09.relayout(case, r.bu)
        for _ in evaluate_cfi_directives(
                r.bu.module, list(r.bu.module.code_blocks)):
            pass
    except Exception as e:  # noqa
        if not err1:
            viol.append({"key": f"cfi:library-evaluator-rejects-output:"
                                f"{type(e).__name__}", "msg": str(e)[:200]})
    if err1:
        return {"sig": None, "violations": viol, "counters": ctr}
    # procedures opened/closed
    def procs(locs):
        out = []
        for (s, p, bp, ds) in sorted((x for x in locs if x[0] != "bad"),
                                     key=lambda x: (x[0], x[1], x[2])):
            for d in ds:
                if d[0] in (".cfi_startproc", ".cfi_endproc"):
                    out.append(d[0][5])
        return "".join(out)
    p0, p1 = procs(state["locs0"]), procs(locs1)
    ctr["procedures"] += p0.count("s")
    for nf in case.get("newfuncs", []):
        # the inserted function brings its procedures along, opened and
        # closed once each and in order
        want_p = "".join(ln["cfi"][0][5] for ln in nf["p"]["lines"]
                         if "cfi" in ln and ln["cfi"][0] in (
                             ".cfi_startproc", ".cfi_endproc"))
        groups = new_function_locations(r.bu)
        ctr["inserted_function_procedures"] = ctr.get(
            "inserted_function_procedures", 0) + want_p.count("s")
        got_p = "".join(sorted(procs(g) for g in groups))
        errs = [evaluate(g)[1] for g in groups]
        if got_p != want_p or any(errs):
            viol.append({
                "key": "cfi:inserted-function-procedures-differ",
                "msg": f"{got_p} != {want_p}; {[e for e in errs if e]}"})
    # instruction projection
    pos0 = {}
    for si, ii, t in lst0.all_tokens():
        if t.t == "I":
            pos0[t.uid] = (si, t.pos)
    surviving = 0
    vanished_ok = 0
    for si, ii, t in lst.all_tokens():
        if t.t != "I":
            continue
        now = state_at(tl1, si, t.pos)
        if t.patch is None:
            was = state_at(tl0, *pos0[t.uid])
            ctr["states_compared"] += 1
            surviving += 1
            octx = ":block-start-after-edit-at-previous-block-end" if \
                prev_block_end_edited(case, lst0, t.bid) else ""
            if (was is None) != (now is None):
                viol.append({
                    "key": "cfi:original-instruction-" + (
                        "left-procedure" if now is None
                        else "entered-procedure") + (
                        ":with-deletion" if deleted_any
                        else ":insertions-only") + octx,
                    "msg": f"{t.key} {t.uid} now at {(si, t.pos)}"})
            elif not deleted_any and strip(was) != strip(now):
                a, b = strip(was), strip(now)
                field = next(k for k in a if a[k] != b[k])
                viol.append({"key": f"cfi:state-of-original-instruction-"
                                    f"changed:{field}",
                             "msg": f"{t.key} {t.uid}: {a[field]} -> "
                                    f"{b[field]}"})
        else:
            # state at the insertion point in the input
            b, i, j = t.site
            blk = rwbase.find_block(case, b)
            if not blk["code"]:
                continue
            offs = lst0.item_offsets(b)
            binfo = lst0.block_info[b]
            bpos = next(tt.pos for s2, i2, tt in lst0.all_tokens()
                        if tt.t == "B" and tt.bid == b)
            ip = bpos + offs[i]
            # directives located exactly at the insertion offset stay in
            # front of the patch, except a closing endproc
            was = state_before_endproc(state["locs0"], tl0, binfo["sec"], ip,
                                       bpos)
            ctr["patch_states_compared"] += 1
            pctx = ""
            if prev_block_end_edited(case, lst0, b):
                pctx = ":block-start-after-edit-at-previous-block-end"
            elif after_patch_with_trailing_directives(case, t.patch):
                pctx = (":after-patch-leaving-through-a-jump-with-trailing-"
                        "directives") if after_patch_with_trailing_directives(
                            case, t.patch) == "jump" else (
                    ":after-patch-ending-in-a-label-with-trailing-"
                    "directives")
            if (was is None) != (now is None) and \
                    boundary_inside_adjacent_deletion(case, blk, b, i):
                # a procedure boundary stood inside a range that is deleted
                # right next to the insertion point: it is re-homed to that
                # point, and on which side of it the patch belongs is not
                # determined by the statement
                ctr["dontcare_boundary_rehomed_to_insertion_point"] = \
                    ctr.get("dontcare_boundary_rehomed_to_insertion_point",
                            0) + 1
            elif (was is None) != (now is None):
                viol.append({
                    "key": "cfi:patch-instruction-" + (
                        "outside-procedure" if now is None
                        else "inside-procedure-unexpectedly") + pctx,
                    "msg": f"{t.key} of edit {t.patch} at {(si, t.pos)}"})
            elif was is not None and not deleted_any:
                e = case["edits"][t.patch]
                exp = expected_patch_state(was, e["p"], t)
                if exp is not None and strip_cmp(exp) != strip_cmp(now):
                    a, bb = strip_cmp(exp), strip_cmp(now)
                    field = next(k for k in a if a[k] != bb[k])
                    viol.append({
                        "key": f"cfi:patch-instruction-state:{field}{pctx}",
                        "msg": f"{t.key} of edit {t.patch}: expected "
                               f"{a[field]} got {bb[field]}"})
    # procedures same number and order (empty ones may vanish pairwise)
    if p0 != p1:
        if deleted_any and p1.count("s") == p1.count("e") and \
                len(p1) <= len(p0) and p1 == "se" * (len(p1) // 2):
            vanished_ok += 1
            ctr["vanished_empty_procedures"] = ctr.get(
                "vanished_empty_procedures", 0) + (len(p0) - len(p1)) // 2
        else:
            viol.append({"key": "cfi:procedure-open-close-sequence-differs"
                                + (":with-deletion" if deleted_any else
                                   ":insertions-only"),
                         "msg": f"{p0} -> {p1}"})
    # directive conservation
    def multiset(locs, names=None):
        out = {}
        for x in locs:
            if x[0] == "bad":
                continue
            for d in x[3]:
                if names is None or d[0] in names:
                    k = (d[0], tuple(d[1]), d[2])
                    out[k] = out.get(k, 0) + 1
        return out
    m0, m1 = multiset(state["locs0"]), multiset(locs1)
    ctr["directives_tracked"] += sum(m0.values())
    if not deleted_any:
        # everything original must still be there (patches only add)
        for k, n in m0.items():
            if m1.get(k, 0) < n:
                viol.append({"key": "cfi:directive-lost:insertions-only:" +
                                    ("structural" if k[0] in STRUCT
                                     else "non-structural"),
                             "msg": f"{k}: {n} -> {m1.get(k, 0)}"})
    else:
        for k, n in m0.items():
            if k[0] in (".cfi_remember_state", ".cfi_restore_state") and \
                    m1.get(k, 0) < n and p0 == p1:
                viol.append({"key": "cfi:structural-directive-lost:"
                                    "with-deletion",
                             "msg": f"{k}: {n} -> {m1.get(k, 0)}"})
        # owned directives of surviving instructions
        alive = {t.uid for _, _, t in lst.all_tokens() if t.t == "I"}
        for bid, info in lst0.block_info.items():
            spec = info["blk"].get("cfi") or {}
            for k, ds in spec.items():
                if int(k) == 0:
                    continue
                owner = ("o", bid, int(k) - 1)
                if owner not in alive:
                    continue
                for d in ds:
                    key = (d[0], tuple(d[1]), d[2])
                    if d[0] not in STRUCT and m1.get(key, 0) == 0:
                        viol.append({
                            "key": "cfi:directive-of-surviving-instruction-"
                                   "lost", "msg": f"{key} owned by {owner}"})
    sig = None
    if case["nproc"] and case["edits"] and ctr["states_compared"]:
        kinds = sorted({e.get("p", {}).get("cfi_kind", "plain")
                        if "p" in e else "del" for e in case["edits"]})
        sig = rwbase.shape_signature(case) + "|" + ",".join(kinds) + \
            f"|p{min(case['nproc'], 3)}"
    return {"sig": sig, "violations": viol, "counters": ctr}


def prev_block_end_edited(case, lst0, bid):
    """does the code block physically in front of bid have an edit that
    touches its end (insertion at the end, replacement/deletion reaching it)"""
    prev = None
    # (the block that physically precedes it after the rewrite: zero-sized
    # blocks and wholly deleted blocks in between are gone)
    gone = set()
    for e in case["edits"]:
        if e.get("op") == "del" and e["i"] == 0:
            n_ = len(lst0.block_info[e["b"]]["blk"]["items"])
            if n_ and e["n"] >= n_ and not lst0.block_info[e["b"]]["code"]:
                gone.add(e["b"])      # (data; a deleted code block counts
                #                        as edited at its end, below)
    for s in case["secs"]:
        seq = [b for iv in s["ivs"] for b in iv["blocks"]]
        for k, b in enumerate(seq):
            if b["id"] == bid:
                j = k - 1
                while j >= 0 and (seq[j]["id"] in gone or
                                  not seq[j]["items"]):
                    j -= 1
                if j >= 0:
                    prev = seq[j]
    if prev is None or not prev["code"]:
        return False
    n = len(prev["items"])
    for e in case["edits"]:
        if e["op"] == "delfn":
            f = next(f for f in case["funcs"] if f["name"] == e["f"])
            if prev["id"] in f["blocks"]:
                return True
            continue
        if e["b"] != prev["id"]:
            continue
        if e["op"] == "ins" and e["i"] == n:
            return True
        if e["op"] in ("rep", "del") and e["i"] + e.get("n", 0) == n:
            return True
    return False


def state_before_endproc(locs, tl, sec, pos, bpos):
    """state in effect for code inserted at pos into the block starting at
    bpos: directives located at pos in that block (or in blocks in front of
    it) apply, except a closing endproc and what follows it; directives of
    later blocks at the same position come behind the insertion"""
    good = sorted((x for x in locs if x[0] != "bad"),
                  key=lambda x: (x[0], x[1], x[2]))
    cut = []
    for (s, p, bp, ds) in good:
        if s < sec or (s == sec and p < pos):
            cut.append((s, p, bp, ds))
        elif s == sec and p == pos and bp < bpos:
            cut.append((s, p, bp, ds))      # tail of a block in front
        elif s == sec and p == pos and bp == bpos:
            keep = []
            for d in ds:
                if d[0] == ".cfi_endproc":
                    break
                keep.append(d)
            cut.append((s, p, bp, keep))
    tl2, err = evaluate(cut)
    if err:
        return None
    return state_at(tl2, sec, pos)


def expected_patch_state(was, p, tok):
    """insertion-point state plus the patch's directives in front of tok"""
    kind = p.get("cfi_kind")
    snap = dict(was)
    if kind is None:
        return snap
    k = tok.uid[2]
    # index of tok among the patch's instructions -> directives before it
    idx = -1
    cfa = snap["cfa"]
    regs = dict(snap["regs"])
    stack = list(snap["stack"])
    for ln in p["lines"]:
        if "cfi" in ln:
            name, args = ln["cfi"]
            if name == ".cfi_adjust_cfa_offset":
                if not cfa or cfa[0] != "regoff":
                    return None
                cfa = ("regoff", cfa[1], cfa[2] + args[0])
            elif name == ".cfi_remember_state":
                stack.append((cfa, dict(regs)))
            elif name == ".cfi_restore_state":
                cfa, regs = stack.pop()
            elif name == ".cfi_undefined":
                regs[args[0]] = ("undefined",)
            continue
        if "l" in ln or "raw" in ln:
            continue
        idx += 1
        if idx == k:
            break
    snap["cfa"], snap["regs"], snap["stack"] = cfa, regs, stack
    return snap


def strip_cmp(snap):
    return {k: snap[k] for k in ("cfa", "regs", "stack")}
