"""C20: internal containers behave like their simple abstract models."""
import itertools
import random
import uuid as uuidlib

import gtirb

from .. import contracts, hooks

PROP = "C20"
LEVEL = "exploration"
TECHNIQUE = "reference-model monitors run in lock step after every operation of a history (dict / list / set-of-ids / CFG-scan models) plus icontract invariants on the cache classes"
RULE = (
    "random operation histories (1-60 ops) over small alphabets: "
    "ReferenceCache (2-6 blocks, 1-8 symbols; retarget incl. cycles, "
    "self-retargets and keep_end_references, get_referent, full and "
    "partial get_references, set_referent, direct assignment to direct "
    "symbols, apply, context exit with and without an exception) vs a dict "
    "symbol->(block,at_end); ReturnEdgeCache (add/discard/clear/update and "
    "the MutableSet mix-ins) vs a scan; make_return_cache (exit paths, "
    "modification of the original object, replacement of ir.cfg, nesting); "
    "BlockOrdering/LinkedListNode vs Python lists; OffsetMapping vs dict of "
    "dicts (Offset and element keys, views, pop/setdefault/update); "
    "IdentitySet vs a dict of id(); thorough tier enumerates all "
    "ReferenceCache histories up to length 4 over 3 blocks/3 symbols and all "
    "small-container histories up to length 5. After EVERY operation all "
    "public queries are compared with the model. non-trivial = >=1 mutating "
    "op and >=1 comparison; distinct = (container, multiset of op kinds)."
    " Return-cache histories include Sysret/Syscall edges; the"
    " context-exit cases are also driven from passes run by"
    " PassManager (begin_module/end_module replacing ir.cfg or editing"
    " the caller's CFG)."
)
ASSUMPTIONS = [
    "ReferenceCache is driven on blocks and symbols attached to a module (block.references is only visible there)",
    "direct assignment Symbol.referent = x is only applied to symbols that currently have a direct referent (the documented contract)",
]
BUDGET = {"quick": (16000, 35), "thorough": (1500000, 480)}
REQUIRED_COUNTERS = ["comparisons", "contract_evaluations"]


def setup_worker(tier):
    contracts.install()


KINDS = ["refcache", "refcache", "refcache", "retcache", "retctx", "ordering",
         "offsetmap", "idset", "linkedlist"]


def gen_case(rng, tier, index):
    kind = KINDS[index % len(KINDS)]
    n = rng.choice([1, 2, 3, 5, 8, 12, 20, 40, 60])
    c = {"kind": kind, "ops": []}
    if kind == "refcache":
        nb, ns = rng.randrange(2, 7), rng.randrange(1, 9)
        c["nb"], c["ns"] = nb, ns
        c["init"] = [[rng.randrange(-1, nb), rng.random() < 0.3]
                     for _ in range(ns)]
        c["exit"] = rng.choice(["apply", "with", "with-raise"])
        for _ in range(n):
            r = rng.random()
            if r < 0.45:
                c["ops"].append(["retarget", rng.randrange(nb),
                                 rng.randrange(nb), rng.random() < 0.4,
                                 rng.random() < 0.25])
                if random.Random(f"rn:{index}:{len(c['ops'])}").random() \
                        < 0.12:
                    # "nowhere": legal for a block nothing refers to (what
                    # removing the last block of a section asks for)
                    c["ops"][-1][2] = -1
            elif r < 0.6:
                c["ops"].append(["get_referent", rng.randrange(ns)])
            elif r < 0.72:
                c["ops"].append(["get_references", rng.randrange(nb),
                                 rng.choice([None, None, 0, 1, 2])])
            elif r < 0.84:
                c["ops"].append(["set_referent", rng.randrange(ns),
                                 rng.randrange(-1, nb), rng.random() < 0.4])
            elif r < 0.94:
                c["ops"].append(["direct", rng.randrange(ns),
                                 rng.randrange(nb), rng.random() < 0.4])
            else:
                c["ops"].append(["apply"])
    elif kind in ("retcache", "retctx"):
        c["nb"] = rng.randrange(2, 5)
        c["np"] = rng.randrange(1, 3)
        if kind == "retctx":
            c["exit"] = rng.choice(["normal", "raise", "modify-original",
                                    "replace-cfg", "nested", "normal"])
            # the same misbehaviour from a pass run by PassManager
            c["pm"] = rng.random() < 0.3
            c["pm_hook"] = rng.choice(["begin_module", "end_module"])
        for _ in range(n):
            e = [rng.randrange(c["nb"]), rng.randrange(c["nb"] + c["np"]),
                 rng.choice(["Return", "Return", "Branch", "Fallthrough",
                             "Call", "Sysret", "Syscall"])]
            c["ops"].append([rng.choice(
                ["add", "add", "add", "discard", "discard", "update",
                 "clear", "remove", "isub", "ior", "pop"]), e,
                [rng.randrange(c["nb"]), rng.randrange(
                    c["nb"] + c["np"]), "Return"]])
    elif kind == "ordering":
        c["nb"] = rng.randrange(2, 9)
        for _ in range(n):
            r = rng.random()
            ks = rng.sample(range(c["nb"]), rng.randrange(1, min(
                4, c["nb"]) + 1))
            if r < 0.3:
                c["ops"].append(["detached", ks])
            elif r < 0.7:
                c["ops"].append(["after", rng.randrange(c["nb"]), ks])
            else:
                c["ops"].append(["remove", rng.randrange(c["nb"])])
    elif kind == "offsetmap":
        c["ne"] = rng.randrange(1, 4)
        for _ in range(n):
            op = rng.choice(["set", "set", "set", "del", "get", "setelem",
                             "delelem", "getelem", "pop", "popelem",
                             "setdefault", "update", "sub-set", "sub-del",
                             "setelem-bad", "contains"])
            c["ops"].append([op, rng.randrange(c["ne"]), rng.randrange(4),
                             rng.randrange(100),
                             {str(rng.randrange(4)): rng.randrange(100)
                              for _ in range(rng.randrange(0, 3))}])
    elif kind == "idset":
        c["no"] = rng.randrange(2, 7)
        for _ in range(n):
            c["ops"].append([rng.choice(
                ["add", "add", "discard", "remove", "pop", "contains",
                 "ior", "isub", "iand", "ixor", "clear"]),
                rng.randrange(c["no"]),
                rng.sample(range(c["no"]), rng.randrange(0, c["no"]))])
    elif kind == "linkedlist":
        c["nn"] = rng.randrange(2, 7)
        for _ in range(n):
            c["ops"].append([rng.choice(["after", "after", "unlink"]),
                             rng.randrange(c["nn"]), rng.randrange(c["nn"])])
    return c


def exhaustive(tier):
    if tier != "thorough":
        # small exhaustive sub-space also in the quick tier
        ops = [["retarget", a, b, e, False] for a in range(2)
               for b in range(2) for e in (False, True)] + [
            ["get_referent", 0], ["apply"]]
        for hist in itertools.product(ops, repeat=3):
            yield {"kind": "refcache", "nb": 2, "ns": 2,
                   "init": [[0, False], [1, True]], "exit": "with",
                   "ops": [list(o) for o in hist]}
        return
    ops = [["retarget", a, b, e, k] for a in range(3) for b in range(3)
           for e in (False, True) for k in (False, True)] + [
        ["get_referent", 0], ["get_references", 1, 1], ["apply"],
        ["set_referent", 1, 2, True]]
    for n in (1, 2, 3):
        for hist in itertools.product(ops, repeat=n):
            yield {"kind": "refcache", "nb": 3, "ns": 3,
                   "init": [[0, False], [1, True], [0, True]],
                   "exit": "with", "ops": [list(o) for o in hist]}
    oops = [["detached", [0]], ["detached", [1, 2]], ["after", 0, [1]],
            ["after", 1, [2, 0]], ["remove", 0], ["remove", 1],
            ["after", 2, [0]]]
    for n in (1, 2, 3, 4, 5):
        for hist in itertools.product(oops, repeat=n):
            yield {"kind": "ordering", "nb": 3,
                   "ops": [list(o) for o in hist]}


# ---------------------------------------------------------------- helpers
class V:
    def __init__(self):
        self.viol = []
        self.ctr = {"comparisons": 0, "mutations": 0}

    def eq(self, a, b, key, msg=""):
        self.ctr["comparisons"] += 1
        if a != b:
            if len(self.viol) < 5:
                self.viol.append({"key": key,
                                  "msg": f"{msg}: got {a!r} model {b!r}"})
            return False
        return True


def mkmodule(nb, ns, init):
    ir = gtirb.IR()
    m = gtirb.Module(name="t", isa=gtirb.Module.ISA.X64,
                     file_format=gtirb.Module.FileFormat.ELF)
    m.ir = ir
    s = gtirb.Section(name=".text")
    s.module = m
    bi = gtirb.ByteInterval(contents=bytes(4 * nb), address=0x1000)
    bi.section = s
    blocks = []
    for i in range(nb):
        b = gtirb.CodeBlock(offset=4 * i, size=4)
        b.byte_interval = bi
        blocks.append(b)
    syms = []
    for i in range(ns):
        bidx, at_end = init[i]
        sy = gtirb.Symbol(f"s{i}", payload=blocks[bidx] if bidx >= 0
                          else None, at_end=at_end if bidx >= 0 else False)
        sy.module = m
        syms.append(sy)
    return ir, m, blocks, syms


# ---------------------------------------------------------------- refcache
def run_refcache(c, v):
    from gtirb_rewriting._modify.cache import ReferenceCache
    ir, m, blocks, syms = mkmodule(c["nb"], c["ns"], c["init"])
    model = {i: ((blocks[b] if b >= 0 else None), (e if b >= 0 else False))
             for i, (b, e) in enumerate(c["init"])}
    mon = hooks.CacheMonitor()
    rc = ReferenceCache()

    def compare(tag):
        for i, sy in enumerate(syms):
            blk, at_end = mon.resolve_readonly(rc, sy)
            mb, me = model[i]
            v.eq(blk if blk in ("CYCLE", "UNROOTED") else id(blk), id(mb),
                 "refcache:referent-differs-from-model", f"{tag} s{i}")
            if mb is not None and blk is mb:
                v.eq(bool(at_end), bool(me),
                     "refcache:at_end-differs-from-model", f"{tag} s{i}")

    class Boom(Exception):
        pass

    def body():
        for op in c["ops"]:
            k = op[0]
            if k == "retarget":
                _, a, b, e, keep = op
                moved = [i for i, (mb, me) in model.items()
                         if mb is blocks[a]]
                if b == -1:
                    if not moved:
                        rc.retarget_references(blocks[a], None, e)
                        v.ctr["retargets_to_nowhere"] = v.ctr.get(
                            "retargets_to_nowhere", 0) + 1
                        compare(k)
                    continue
                kw = {"keep_end_references": True} if keep else {}
                try:
                    rc.retarget_references(blocks[a], blocks[b], e, **kw)
                except TypeError:
                    # tree without the keep_end_references parameter
                    if not keep:
                        raise
                    rc.retarget_references(blocks[a], blocks[b], e)
                    keep = False
                for i in moved:
                    mb, me = model[i]
                    model[i] = (blocks[b], True if (keep and me) else e)
                v.ctr["mutations"] += 1
            elif k == "get_referent":
                got = rc.get_referent(syms[op[1]])
                mb, me = model[op[1]]
                v.eq(id(got), id(mb), "refcache:get_referent-differs",
                     f"s{op[1]}")
                if mb is not None:
                    v.eq((id(syms[op[1]].referent), syms[op[1]].at_end),
                         (id(mb), me),
                         "refcache:get_referent-not-made-direct",
                         f"s{op[1]}")
            elif k == "get_references":
                it = rc.get_references(blocks[op[1]])
                want = {i for i, (mb, me) in model.items()
                        if mb is blocks[op[1]]}
                if op[2] is None:
                    got = {int(sy.name[1:]) for sy in it}
                    v.eq(got, want, "refcache:get_references-differ",
                         f"b{op[1]}")
                    for i in got:
                        mb, me = model[i]
                        v.eq((id(syms[i].referent), bool(syms[i].at_end)),
                             (id(mb), bool(me)),
                             "refcache:get_references-not-made-direct",
                             f"s{i}")
                else:
                    got = set()
                    for _ in range(op[2]):
                        try:
                            got.add(int(next(it).name[1:]))
                        except StopIteration:
                            break
                    it.close()
                    v.eq(got <= want, True,
                         "refcache:get_references-yields-foreign-symbol",
                         f"b{op[1]}")
            elif k == "set_referent":
                _, si, b, e = op
                rc.set_referent(syms[si], blocks[b] if b >= 0 else None, e)
                model[si] = (blocks[b] if b >= 0 else None, e)
                v.ctr["mutations"] += 1
            elif k == "direct":
                _, si, b, e = op
                if syms[si].referent is not None:
                    syms[si].referent = blocks[b]
                    syms[si].at_end = e
                    model[si] = (blocks[b], e)
                    v.ctr["mutations"] += 1
            elif k == "apply":
                rc.apply()
                direct_check("apply")
            compare(k)

    def direct_check(tag):
        for i, sy in enumerate(syms):
            mb, me = model[i]
            v.eq(id(sy.referent), id(mb),
                 "refcache:after-apply-referent-differs", f"{tag} s{i}")
            if mb is not None:
                v.eq(bool(sy.at_end), bool(me),
                     "refcache:after-apply-at_end-differs", f"{tag} s{i}")

    if c["exit"] == "apply":
        body()
        rc.apply()
    elif c["exit"] == "with":
        with rc:
            body()
    else:
        try:
            with rc:
                body()
                raise Boom()
        except Boom:
            pass
    direct_check("exit")
    v.eq((len(rc._referents), len(rc._references)), (0, 0),
         "refcache:not-empty-after-apply", "")


# ---------------------------------------------------------------- retcache
def mk_edge(blocks, proxies, e):
    nodes = blocks + proxies
    return gtirb.Edge(source=blocks[e[0]], target=nodes[e[1]],
                      label=gtirb.Edge.Label(
                          type=getattr(gtirb.Edge.Type, e[2])))


def compare_retcache(cache, blocks, v, tag):
    scan = {}
    pscan = {}
    for e in cache:
        if e.label.type == gtirb.Edge.Type.Return:
            scan.setdefault(id(e.source), set()).add(e)
            if isinstance(e.target, gtirb.ProxyBlock):
                pscan.setdefault(id(e.source), set()).add(e)
    for b in blocks:
        v.eq(cache.block_return_edges(b), scan.get(id(b), set()),
             "retcache:block_return_edges-differ", tag)
        v.eq(cache.block_proxy_return_edges(b), pscan.get(id(b), set()),
             "retcache:block_proxy_return_edges-differ", tag)
        v.eq(cache.any_return_edges(b), id(b) in scan,
             "retcache:any_return_edges-differs", tag)


def apply_cfg_op(cfg, model, op, blocks, proxies, v):
    k, e1, e2 = op
    a, b = mk_edge(blocks, proxies, e1), mk_edge(blocks, proxies, e2)
    if k == "add":
        cfg.add(a)
        model.add(a)
    elif k == "discard":
        cfg.discard(a)
        model.discard(a)
    elif k == "update":
        cfg.update([a, b])
        model.update([a, b])
    elif k == "clear":
        cfg.clear()
        model.clear()
    elif k == "remove":
        try:
            cfg.remove(a)
            ok = True
        except KeyError:
            ok = False
        v.eq(ok, a in model, "retcache:remove-keyerror", "")
        model.discard(a)
    elif k == "isub":
        cfg -= {a, b}
        model -= {a, b}
    elif k == "ior":
        cfg |= {a, b}
        model |= {a, b}
    elif k == "pop":
        if model:
            x = cfg.pop()
            v.eq(x in model, True, "retcache:pop-foreign", "")
            model.discard(x)
    v.ctr["mutations"] += 1
    v.eq(set(cfg), model, "retcache:contents-differ", k)
    v.eq(len(cfg), len(model), "retcache:len-differs", k)
    return cfg


def run_retcache(c, v):
    from gtirb_rewriting._modify.cache import ReturnEdgeCache
    blocks = [gtirb.CodeBlock(offset=i, size=1) for i in range(c["nb"])]
    proxies = [gtirb.ProxyBlock() for _ in range(c["np"])]
    cache = ReturnEdgeCache()
    model = set()
    for op in c["ops"]:
        cache = apply_cfg_op(cache, model, op, blocks, proxies, v)
        compare_retcache(cache, blocks, v, op[0])


def run_retctx(c, v):
    from gtirb_rewriting._modify.cache import (CFGModifiedError,
                                               ReturnEdgeCache,
                                               make_return_cache)
    if c.get("pm") and c["exit"] in ("modify-original", "replace-cfg",
                                     "normal"):
        return run_retctx_passmanager(c, v)
    blocks = [gtirb.CodeBlock(offset=i, size=1) for i in range(c["nb"])]
    proxies = [gtirb.ProxyBlock() for _ in range(c["np"])]
    ir = gtirb.IR()
    orig = ir.cfg
    half = len(c["ops"]) // 2
    model = set()
    for op in c["ops"][:half]:
        apply_cfg_op(ir.cfg, model, op, blocks, proxies, v)
    mode = c["exit"]

    class Boom(Exception):
        pass
    raised = None
    try:
        with make_return_cache(ir) as cache:
            v.eq(ir.cfg is cache and isinstance(cache, ReturnEdgeCache),
                 True, "retctx:ir-cfg-not-the-cache", "")
            v.eq(set(cache), model, "retctx:cache-not-initialised", "")
            for op in c["ops"][half:]:
                apply_cfg_op(ir.cfg, model, op, blocks, proxies, v)
                compare_retcache(cache, blocks, v, op[0])
            if mode == "nested":
                with make_return_cache(ir) as inner:
                    v.eq(inner is cache, True, "retctx:nested-new-cache", "")
                v.eq(ir.cfg is cache, True,
                     "retctx:nested-exit-restored-early", "")
            if mode == "modify-original":
                extra = gtirb.Edge(blocks[0], proxies[0], gtirb.Edge.Label(
                    type=gtirb.Edge.Type.Syscall))
                if extra not in orig:
                    orig.add(extra)
                else:
                    mode = "normal"
            if mode == "replace-cfg":
                ir.cfg = gtirb.CFG()
            if mode == "raise":
                raise Boom()
    except Boom as x:
        raised = x
    except CFGModifiedError as x:
        raised = x
    if mode in ("modify-original", "replace-cfg"):
        v.eq(type(raised).__name__, "CFGModifiedError",
             f"retctx:{mode}-not-reported", "")
    elif mode == "raise":
        v.eq(type(raised).__name__, "Boom", "retctx:body-exception-lost", "")
    else:
        v.eq(raised, None, "retctx:unexpected-error", repr(raised))
    v.eq(ir.cfg is orig, True, "retctx:cfg-object-not-restored", mode)
    v.eq(type(ir.cfg) is gtirb.CFG, True, "retctx:cfg-not-plain", mode)
    v.eq(set(ir.cfg), model, "retctx:final-edges-differ", mode)


def run_retctx_passmanager(c, v):
    """PassManager.run holds the return-cache context around its passes: a
    pass that replaces ir.cfg or edits the caller's CFG object is reported
    and the caller's object is back afterwards"""
    from gtirb_test_helpers import create_test_module
    from gtirb_rewriting import Pass, PassManager
    from gtirb_rewriting._modify.cache import CFGModifiedError
    ir, m = create_test_module(gtirb.Module.FileFormat.ELF,
                               gtirb.Module.ISA.X64)
    orig = ir.cfg
    b = gtirb.CodeBlock(offset=0, size=1)
    p = gtirb.ProxyBlock()
    mode = c["exit"]

    def misbehave(module):
        if mode == "replace-cfg":
            module.ir.cfg = gtirb.CFG()
        elif mode == "modify-original":
            orig.add(gtirb.Edge(b, p, gtirb.Edge.Label(
                type=gtirb.Edge.Type.Syscall)))

    class Bad(Pass):
        def begin_module(self, module, functions, ctx):
            if c["pm_hook"] == "begin_module":
                misbehave(module)

        def end_module(self, module, functions):
            if c["pm_hook"] == "end_module":
                misbehave(module)
    pm = PassManager()
    pm.add(Bad())
    raised = None
    try:
        pm.run(ir)
    except CFGModifiedError as x:
        raised = x
    v.ctr["retctx_passmanager_runs"] = v.ctr.get(
        "retctx_passmanager_runs", 0) + 1
    if mode == "normal":
        v.eq(raised, None, "retctx:passmanager:unexpected-error", repr(raised))
    else:
        v.eq(type(raised).__name__, "CFGModifiedError",
             f"retctx:passmanager:{mode}-not-reported", c["pm_hook"])
    v.eq(ir.cfg is orig, True, "retctx:passmanager:cfg-object-not-restored",
         mode)


# ---------------------------------------------------------------- ordering
def run_ordering(c, v):
    from gtirb_rewriting._adt import BlockOrdering
    blocks = [gtirb.CodeBlock(offset=i, size=1) for i in range(c["nb"])]
    bo = BlockOrdering()
    chains = []   # list of lists of indices

    def where(i):
        for ch in chains:
            if i in ch:
                return ch
        return None

    for op in c["ops"]:
        k = op[0]
        if k in ("detached", "after"):
            ks = op[-1]
            fresh = all(where(i) is None for i in ks) and len(set(ks)) == len(ks)
            anchor_ok = k == "detached" or where(op[1]) is not None
            try:
                if k == "detached":
                    bo.add_detached_blocks([blocks[i] for i in ks])
                else:
                    bo.insert_blocks_after(blocks[op[1]],
                                           [blocks[i] for i in ks])
                ok = True
            except (ValueError, KeyError) as x:
                ok = False
                err = type(x).__name__
            v.eq(ok, fresh and anchor_ok, "ordering:insert-acceptance",
                 str(op))
            if ok and fresh and anchor_ok:
                if k == "detached":
                    chains.append(list(ks))
                else:
                    ch = where(op[1])
                    p = ch.index(op[1])
                    ch[p + 1:p + 1] = list(ks)
                v.ctr["mutations"] += 1
            elif ok:
                return   # accepted something the model refuses: reported
        else:
            ch = where(op[1])
            try:
                bo.remove_block(blocks[op[1]])
                ok = True
            except KeyError:
                ok = False
            v.eq(ok, ch is not None, "ordering:remove-acceptance", str(op))
            if ch is not None and ok:
                ch.remove(op[1])
                v.ctr["mutations"] += 1
        for i in range(c["nb"]):
            ch = where(i)
            try:
                got = bo.adjacent_blocks(blocks[i])
                gi = tuple(None if g is None else blocks.index(g)
                           for g in got)
            except KeyError:
                gi = "KeyError"
            if ch is None:
                want = "KeyError"
            else:
                p = ch.index(i)
                want = (ch[p - 1] if p else None,
                        ch[p + 1] if p + 1 < len(ch) else None)
            v.eq(gi, want, "ordering:adjacent_blocks-differ", f"b{i} {op}")


def run_linkedlist(c, v):
    from gtirb_rewriting._adt import LinkedListNode
    nodes = [LinkedListNode(i) for i in range(c["nn"])]
    chains = [[i] for i in range(c["nn"])]

    def where(i):
        return next(ch for ch in chains if i in ch)
    for op in c["ops"]:
        k, a, b = op
        if k == "after" and a == b:
            continue    # inserting a node after itself is not reachable
        if k == "after":
            chb = where(b)
            allowed = len(chb) == 1 and a != b
            try:
                nodes[a].insert_node_after(nodes[b])
                ok = True
            except ValueError:
                ok = False
            v.eq(ok, allowed, "linkedlist:insert-acceptance", str(op))
            if ok and allowed:
                chains.remove(chb)
                cha = where(a)
                cha.insert(cha.index(a) + 1, b)
                v.ctr["mutations"] += 1
            elif ok:
                return
        else:
            nodes[a].unlink()
            ch = where(a)
            if len(ch) > 1:
                ch.remove(a)
                chains.append([a])
            v.ctr["mutations"] += 1
        for i in range(c["nn"]):
            ch = where(i)
            p = ch.index(i)
            want = (ch[p - 1] if p else None,
                    ch[p + 1] if p + 1 < len(ch) else None)
            got = (nodes[i].prev.value if nodes[i].prev else None,
                   nodes[i].next.value if nodes[i].next else None)
            v.eq(got, want, "linkedlist:links-differ", f"n{i} {op}")


# ---------------------------------------------------------------- offsetmap
def run_offsetmap(c, v):
    from gtirb_rewriting._adt import OffsetMapping
    elems = [gtirb.CodeBlock(offset=i, size=4) if i % 2 == 0
             else uuidlib.UUID(int=i + 1) for i in range(c["ne"])]
    om = OffsetMapping()
    model = {}

    def off(e, d):
        return gtirb.Offset(elems[e], d)

    for op in c["ops"]:
        k, e, d, val, sub = op
        sub = {int(a): b for a, b in sub.items()}
        key = off(e, d)
        has = e in model and d in model[e]
        if k == "set":
            om[key] = val
            model.setdefault(e, {})[d] = val
        elif k == "del":
            try:
                del om[key]
                ok = True
            except KeyError:
                ok = False
            v.eq(ok, has, "offsetmap:del-keyerror", str(op))
            if has:
                del model[e][d]
        elif k == "get":
            try:
                got = om[key]
            except KeyError:
                got = "KeyError"
            v.eq(got, model[e][d] if has else "KeyError",
                 "offsetmap:getitem-differs", str(op))
            v.eq(om.get(key, "dflt"), model[e][d] if has else "dflt",
                 "offsetmap:get-differs", str(op))
        elif k == "setelem":
            om[elems[e]] = dict(sub)
            model[e] = dict(sub)
        elif k == "setelem-bad":
            try:
                om[elems[e]] = val
                v.eq("accepted", "ValueError",
                     "offsetmap:non-mapping-accepted", str(op))
            except ValueError:
                pass
        elif k == "delelem":
            try:
                del om[elems[e]]
                ok = True
            except KeyError:
                ok = False
            v.eq(ok, e in model, "offsetmap:delelem-keyerror", str(op))
            model.pop(e, None)
        elif k == "getelem":
            try:
                got = dict(om[elems[e]])
            except KeyError:
                got = "KeyError"
            v.eq(got, dict(model[e]) if e in model else "KeyError",
                 "offsetmap:getelem-differs", str(op))
        elif k == "pop":
            got = om.pop(key, "dflt")
            v.eq(got, model[e].pop(d) if has else "dflt",
                 "offsetmap:pop-differs", str(op))
        elif k == "popelem":
            got = om.pop(elems[e], "dflt")
            want = model.pop(e) if e in model else "dflt"
            v.eq(dict(got) if got != "dflt" else got, want,
                 "offsetmap:popelem-differs", str(op))
        elif k == "setdefault":
            got = om.setdefault(key, val)
            want = model.setdefault(e, {}).setdefault(d, val)
            v.eq(got, want, "offsetmap:setdefault-differs", str(op))
        elif k == "update":
            om.update({off(e, a): b for a, b in sub.items()})
            for a, b in sub.items():
                model.setdefault(e, {})[a] = b
        elif k == "sub-set":
            if e in model:
                om[elems[e]][d] = val
                model[e][d] = val
        elif k == "sub-del":
            if has:
                del om[elems[e]][d]
                del model[e][d]
        elif k == "contains":
            pass
        v.ctr["mutations"] += 1
        flat = {(x, y): z for x, mm in model.items() for y, z in mm.items()}
        v.eq(len(om), len(flat), "offsetmap:len-differs", str(op))
        v.eq({(elems.index(o.element_id), o.displacement) for o in om},
             set(flat), "offsetmap:iter-differs", str(op))
        v.eq({(elems.index(o.element_id), o.displacement): z
              for o, z in om.items()}, flat, "offsetmap:items-differ",
             str(op))
        v.eq(bool(om), bool(flat), "offsetmap:bool-differs", str(op))
        for x in range(c["ne"]):
            v.eq(elems[x] in om, x in model,
                 "offsetmap:contains-element-differs", str(op))
            for y in range(4):
                v.eq(off(x, y) in om, (x, y) in flat,
                     "offsetmap:contains-offset-differs", str(op))
        v.eq({elems.index(x) for x in om.node_keys()}, set(model),
             "offsetmap:node_keys-differ", str(op))


# ---------------------------------------------------------------- idset
def run_idset(c, v):
    from gtirb_rewriting._adt import IdentitySet
    # equal-but-distinct objects
    objs = [tuple([i % 2]) for i in range(c["no"])]
    objs = [eval(repr(o)) if False else (o[0],) + () for o in objs]
    objs = [list((i % 2,)) for i in range(c["no"])]   # unhashable, equal
    s = IdentitySet()
    model = {}

    def ids(x):
        return {id(o) for o in x}
    for op in c["ops"]:
        k, i, many = op
        o = objs[i]
        others = [objs[j] for j in many]
        if k == "add":
            s.add(o)
            model[id(o)] = o
        elif k == "discard":
            s.discard(o)
            model.pop(id(o), None)
        elif k == "remove":
            try:
                s.remove(o)
                ok = True
            except KeyError:
                ok = False
            v.eq(ok, id(o) in model, "idset:remove-keyerror", str(op))
            model.pop(id(o), None)
        elif k == "pop":
            if model:
                x = s.pop()
                v.eq(id(x) in model, True, "idset:pop-foreign", str(op))
                model.pop(id(x), None)
            else:
                try:
                    s.pop()
                    v.eq("popped", "KeyError", "idset:pop-empty", "")
                except KeyError:
                    pass
        elif k == "contains":
            pass
        elif k == "ior":
            s |= IdentitySet(others)
            for x in others:
                model[id(x)] = x
        elif k == "isub":
            s -= IdentitySet(others)
            for x in others:
                model.pop(id(x), None)
        elif k == "iand":
            s &= IdentitySet(others)
            keep = ids(others)
            for key in list(model):
                if key not in keep:
                    del model[key]
        elif k == "ixor":
            s ^= IdentitySet(others)
            for x in others:
                if id(x) in model:
                    del model[id(x)]
                else:
                    model[id(x)] = x
        elif k == "clear":
            s.clear()
            model.clear()
        v.ctr["mutations"] += 1
        v.eq(len(s), len(model), "idset:len-differs", str(op))
        v.eq(ids(s), set(model), "idset:iter-differs", str(op))
        for x in objs:
            v.eq(x in s, id(x) in model, "idset:contains-differs", str(op))


RUN = {"refcache": run_refcache, "retcache": run_retcache,
       "retctx": run_retctx, "ordering": run_ordering,
       "offsetmap": run_offsetmap, "idset": run_idset,
       "linkedlist": run_linkedlist}


def run_case(c):
    v = V()
    before = sum(contracts.COUNTS.values())
    contracts.drain()
    RUN[c["kind"]](c, v)
    for cls, what in contracts.drain():
        v.viol.append({"key": f"contract:{cls}:{what}", "msg": what})
    v.ctr["contract_evaluations"] = sum(contracts.COUNTS.values()) - before
    sig = None
    if v.ctr["mutations"] and v.ctr["comparisons"]:
        kinds = sorted({op[0] for op in c["ops"]})
        sig = f"{c['kind']}:{len(c['ops'])}:" + ",".join(kinds)
        if c["kind"] in ("refcache", "retctx"):
            sig += ":" + c.get("exit", "")
    return {"sig": sig, "violations": v.viol, "counters": v.ctr}
