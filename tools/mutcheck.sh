#!/bin/bash
# usage: tools/mutcheck.sh <patch.diff> <Cxx> [more checks...]   (applies to /repo, runs quick checks, reverts)
P="$1"; shift
cd /repo && git apply "$P" || { echo "PATCH DOES NOT APPLY"; exit 3; }
cd /verif
for c in "$@"; do
  out=$(./check $c --tier ${TIER:-quick} ${SEED:+--seed $SEED} 2>&1)
  echo "$out" | grep -E "^VIOLATION|^INCONCLUSIVE|verdict=" | cut -c1-220 | head -8
  echo "$out" | grep -E "^  key=" | cut -c1-200 | head -6
done
cd /repo && git checkout -- . && git status --short | head -3
