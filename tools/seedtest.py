#!/usr/bin/env python3
"""
Test the checks against one seeded change.

  tools/seedtest.py seeded/<id> [--checks C03,C05 | --all] [--tier quick] [--seed N]
                    [--no-verify]

1. makes a scratch worktree of /repo's HEAD under /tmp (never touches /repo),
2. verifies the seeded change itself: the demonstration passes on the
   unchanged tree, the patch applies, the repository's test suite still passes
   with it, the demonstration fails with it,
3. runs the requested checks against the scratch tree (VERIF_REPO/VERIF_OUT, so
   /verif/evidence is not touched) and records verdict and reported keys,
4. removes the worktree and writes the observations into seeded/<id>/meta.json
   (key "observed").
"""
import argparse
import json
import os
import re
import shutil
import subprocess
import sys
import time

VERIF = os.path.dirname(os.path.dirname(os.path.abspath(__file__)))
PY = "/venv/bin/python"
ALL = [f"C{i:02d}" for i in range(1, 21)]


def sh(cmd, **kw):
    return subprocess.run(cmd, capture_output=True, text=True, **kw)


def main():
    ap = argparse.ArgumentParser()
    ap.add_argument("dir")
    ap.add_argument("--checks", default="")
    ap.add_argument("--all", action="store_true")
    ap.add_argument("--tier", default="quick")
    ap.add_argument("--seed", default="0")
    ap.add_argument("--seconds", default="")
    ap.add_argument("--no-verify", action="store_true")
    args = ap.parse_args()
    sdir = os.path.abspath(args.dir)
    sid = os.path.basename(sdir.rstrip("/"))
    meta_path = os.path.join(sdir, "meta.json")
    meta = json.load(open(meta_path)) if os.path.exists(meta_path) else {}
    checks = ALL if args.all else [c for c in args.checks.split(",") if c]
    if not checks:
        checks = [meta["property"]]
    wt = f"/tmp/seedwt/{sid}.{os.getpid()}"
    out = wt + ".out"
    os.makedirs("/tmp/seedwt", exist_ok=True)
    r = sh(["git", "-C", "/repo", "worktree", "add", "-q", "--detach", wt,
            "HEAD"])
    if r.returncode:
        sys.exit("worktree: " + r.stderr)
    try:
        shutil.copy("/repo/src/gtirb_rewriting/version.py",
                    wt + "/src/gtirb_rewriting/version.py")
        env = dict(os.environ, PYTHONPATH=wt + "/src", PYTHONHASHSEED="0")
        env.pop("GTIRB_REWRITING_VERIF", None)
        demo = [f for f in sorted(os.listdir(sdir)) if f.startswith("demo")]
        obs = meta.setdefault("observed", {})
        if not args.no_verify:
            ver = {}
            for d in demo:
                r = sh([PY, os.path.join(sdir, d)], env=env, cwd=wt,
                       timeout=600)
                ver[f"{d}:unchanged-tree-exit"] = r.returncode
            r = sh(["git", "-C", wt, "apply", os.path.join(sdir, "patch.diff")])
            if r.returncode:
                sys.exit("patch does not apply: " + r.stderr)
            r = sh([PY, "-m", "pytest", "-q", "-p", "no:cacheprovider",
                    "--deselect", "tests/test_e2e.py"], env=env, cwd=wt,
                   timeout=1800)
            tail = r.stdout.strip().splitlines()[-1] if r.stdout else ""
            ver["tests-with-change"] = tail
            for d in demo:
                r = sh([PY, os.path.join(sdir, d)], env=env, cwd=wt,
                       timeout=600)
                ver[f"{d}:changed-tree-exit"] = r.returncode
                ver[f"{d}:changed-tree-output"] = (
                    r.stdout + r.stderr).strip()[-400:]
            ver["head"] = sh(["git", "-C", "/repo", "rev-parse", "--short",
                              "HEAD"]).stdout.strip()
            obs["verification"] = ver
            print(json.dumps(ver, indent=1))
        else:
            r = sh(["git", "-C", wt, "apply", os.path.join(sdir, "patch.diff")])
            if r.returncode:
                sys.exit("patch does not apply: " + r.stderr)
        cenv = dict(os.environ, VERIF_REPO=wt, VERIF_OUT=out)
        res = obs.setdefault("checks", {})
        for c in checks:
            cmd = [os.path.join(VERIF, "check"), c, "--tier", args.tier,
                   "--seed", args.seed]
            if args.seconds:
                cmd += ["--seconds", args.seconds]
            t0 = time.time()
            r = sh(cmd, env=cenv, cwd=VERIF)
            keys = sorted(set(re.findall(r"^  key=(\S+)", r.stdout, re.M)))
            verdict = re.findall(r"verdict=(\S+)", r.stdout)
            res[f"{c}:{args.tier}:seed{args.seed}"] = {
                "exit": r.returncode,
                "verdict": verdict[-1] if verdict else None,
                "violation_keys": keys[:12],
                "wall_s": round(time.time() - t0, 1),
            }
            print(c, r.returncode, verdict[-1:] , keys[:6])
    finally:
        sh(["git", "-C", "/repo", "worktree", "remove", "--force", wt])
        shutil.rmtree(out, ignore_errors=True)
        shutil.rmtree(wt, ignore_errors=True)
    with open(meta_path, "w") as f:
        json.dump(meta, f, indent=1, sort_keys=True)


if __name__ == "__main__":
    main()
