#!/venv/bin/python
"""Regenerates MANIFEST.json from the check modules (single source of truth)."""
import importlib, json, os, subprocess, sys
sys.path.insert(0, os.path.dirname(os.path.dirname(os.path.abspath(__file__))))
sys.path.insert(0, "/repo/src")
ALL = [f"C{i:02d}" for i in range(1, 21)]
NOT_YET = {}
checks = []
na = []
for p in ALL:
    path = f"vt/checks/{p.lower()}.py"
    if not os.path.exists(os.path.join(os.path.dirname(__file__), "..", path)):
        na.append({"property_id": p, "reason": "check not built yet in this session (work in progress; runtime monitoring applies, see DESIGN.md section 3)"})
        continue
    m = importlib.import_module(f"vt.checks.{p.lower()}")
    checks.append({
        "property_id": p,
        "quick_cmd": f"./check {p} --tier quick",
        "thorough_cmd": f"./check {p} --tier thorough",
        "evidence_file": f"/verif/evidence/{p}.json",
        "replay_cmd_template": f"./check {p} --replay {{path}}",
        "engine": "vt",
        "level_claimed": {
            "category": m.LEVEL,
            "text": getattr(m, "LEVEL_TEXT", m.RULE)[:1500],
            "design_ref": getattr(m, "DESIGN_REF", f"DESIGN.md section 3 ({p})"),
        },
        "level_note": "; ".join(getattr(m, "ASSUMPTIONS", [])) or "none",
        "technique": m.TECHNIQUE,
    })
hook_commits = []
try:
    out = subprocess.run(["git", "-C", "/repo", "log", "--format=%H %s"], capture_output=True, text=True).stdout
    for line in out.splitlines():
        h, s = line.split(" ", 1)
        if s.startswith("verif-hook:"):
            hook_commits.append(h)
except Exception:
    pass
manifest = {
    "version": 1,
    "setup_cmd": "./setup.sh",
    "hooks": {
        "guard": "GTIRB_REWRITING_VERIF",
        "enable": "checks export GTIRB_REWRITING_VERIF=1 (./check does); the package is an editable install so /repo's working tree is what gets imported, no build step",
        "baseline_off_cmd": "/verif/tools/baseline_off.sh",
        "source_commits": hook_commits,
        "add_only": True,
    },
    "engines": [{
        "name": "vt",
        "path": "/verif/vt",
        "serves_properties": [c["property_id"] for c in checks],
        "kind_free_text": "runtime monitoring: seeded workloads drive the real library; reference-model oracles, icontract invariants on the repo's cache classes, in-repo quiescent-point hook, IR sanitizer, fault injection, shadow-memory interpreters",
    }],
    "checks": checks,
    "not_applicable": na,
    "notes": "Exit codes: 0 held on everything explored (KNOWN-FINDING lines possible), 1 VIOLATION, 2 INCONCLUSIVE (deciding monitor never reached). Known findings: /verif/known_findings.json.",
}
json.dump(manifest, open(os.path.join(os.path.dirname(__file__), "..", "MANIFEST.json"), "w"), indent=1)
print("checks:", [c["property_id"] for c in checks], "na:", len(na))
