#!/usr/bin/env python3
"""tools/seedingest3.py <round dir prefix e.g. R3> <first index> Cxx... : copy sub-agent outputs into seeded/"""
import json, os, shutil, sys
rnd, first = sys.argv[1], int(sys.argv[2])
for p in sys.argv[3:]:
    src = f"/tmp/seed/{rnd}{p}/out"
    for n in (1, 2, 3):
        if not os.path.exists(f"{src}/mut{n}.diff"):
            continue
        d = f"/verif/seeded/{p}-{first + n - 1}"
        os.makedirs(d, exist_ok=True)
        shutil.copy(f"{src}/mut{n}.diff", d + "/patch.diff")
        shutil.copy(f"{src}/demo{n}.py", d + "/demo.py")
        note = open(f"{src}/note{n}.txt").read() if os.path.exists(f"{src}/note{n}.txt") else ""
        open(d + "/note.txt", "w").write(note)
        json.dump({"property": p, "origin": f"sub-agent (round {rnd}) given only the property text and a scratch worktree",
                   "needs_to_manifest": note.strip()}, open(d + "/meta.json", "w"), indent=1)
        print("ingested", d)
