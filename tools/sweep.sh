#!/bin/bash
# usage: tools/sweep.sh <tier> <seeds...>   runs every registered check; prints anything that is not a clean pass
cd "$(dirname "$0")/.."
./setup.sh >/dev/null
TIER="$1"; shift
for seed in "$@"; do
  for c in $(/venv/bin/python -c "import json; print(' '.join(x['property_id'] for x in json.load(open('MANIFEST.json'))['checks']))"); do
    out=$(./check $c --tier $TIER --seed $seed ${SECONDS_OVERRIDE:+--seconds $SECONDS_OVERRIDE} 2>&1); rc=$?
    last=$(echo "$out" | tail -1)
    if [ $rc -ne 0 ]; then
      echo "### $c seed=$seed rc=$rc"; echo "$out" | grep -v "^KNOWN" | cut -c1-400 | head -12
      mkdir -p sweep_replays; cp -r replays/$c sweep_replays/ 2>/dev/null
    else
      echo "ok $c seed=$seed :: $last" | cut -c1-160
    fi
  done
done
