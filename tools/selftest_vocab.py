#!/venv/bin/python
"""Checks the vocabulary table against the real assembler (patch forms) and capstone (all forms)."""
import sys, os
sys.path.insert(0, os.path.dirname(os.path.dirname(os.path.abspath(__file__))))
sys.path.insert(0, "/repo/src")
import gtirb, capstone
from gtirb_test_helpers import create_test_module, add_text_section, add_code_block, add_symbol, add_proxy_block
from gtirb_rewriting.assembler import Assembler
from vt import vocab
ISA = {"x64": (gtirb.Module.ISA.X64, gtirb.Module.FileFormat.ELF), "ia32": (gtirb.Module.ISA.IA32, gtirb.Module.FileFormat.PE), "arm64": (gtirb.Module.ISA.ARM64, gtirb.Module.FileFormat.ELF), "mips32": (gtirb.Module.ISA.MIPS32, gtirb.Module.FileFormat.ELF)}
CS = {"x64": (capstone.CS_ARCH_X86, capstone.CS_MODE_64), "ia32": (capstone.CS_ARCH_X86, capstone.CS_MODE_32), "arm64": (capstone.CS_ARCH_ARM64, capstone.CS_MODE_ARM), "mips32": (capstone.CS_ARCH_MIPS, capstone.CS_MODE_MIPS32 | capstone.CS_MODE_BIG_ENDIAN)}
bad = 0
for isa, (gisa, fmt) in ISA.items():
    ir, m = create_test_module(fmt, gisa, byte_order=gtirb.Module.ByteOrder.Big if isa == "mips32" else None)
    _, bi = add_text_section(m, 0x1000)
    b = add_code_block(bi, vocab.NOP[isa])
    add_symbol(m, "tgt", b)
    md = capstone.Cs(*CS[isa]); md.detail = True
    for key, e in vocab.VOCAB[isa].items():
        imm = 0x1234 if (e["imm"] or e["imm16"] or e["imm16lo"]) else None
        exp = vocab.encode(isa, key, imm)
        insns = list(md.disasm(exp, 0x1000))
        if isa == "mips32" and len(exp) == 8:
            insns = insns[:1]; exp_cs = exp[:4]
        else:
            exp_cs = exp
        if len(insns) != 1 or insns[0].size != len(exp_cs):
            print("CAPSTONE", isa, key, exp.hex(), [(i.mnemonic, i.op_str) for i in insns]); bad += 1
        else:
            i = insns[0]
            g = {"jmp": capstone.CS_GRP_JUMP, "jcc": capstone.CS_GRP_JUMP, "ijmp": capstone.CS_GRP_JUMP, "call": capstone.CS_GRP_CALL, "icall": capstone.CS_GRP_CALL, "ret": capstone.CS_GRP_RET}.get(e["kind"])
            groups = set(i.groups)
            flow = {capstone.CS_GRP_JUMP, capstone.CS_GRP_CALL, capstone.CS_GRP_RET} & groups
            if isa != "mips32" and ((g is None and flow) or (g is not None and g not in groups)):
                print("GROUPS", isa, key, i.mnemonic, i.op_str, groups); bad += 1
        if not e["patch"]:
            continue
        a = Assembler(m)
        a.assemble(vocab.asm_text(isa, key, "tgt", imm))
        r = a.finalize()
        got = r.text_section.data
        if got != exp:
            print("ASM", isa, key, vocab.asm_text(isa, key, "tgt", imm), got.hex(), "expected", exp.hex()); bad += 1
        if "intel" in e:
            from gtirb_rewriting.assembly import X86Syntax
            a = Assembler(m)
            a.assemble(vocab.asm_text(isa, key, "tgt", imm, intel=True), X86Syntax.INTEL)
            got2 = a.finalize().text_section.data
            if got2 != exp:
                print("INTEL", isa, key, got2.hex(), exp.hex()); bad += 1
        if e["sym"]:
            offs = {o: (x.symbol.name, r.text_section.symbolic_expression_sizes[o]) for o, x in r.text_section.symbolic_expressions.items()}
            if list(offs) != [e["sym"][0]]:
                print("SYM", isa, key, offs, e["sym"]); bad += 1
            else:
                print("  sym", isa, key, offs)
print("bad", bad)
sys.exit(1 if bad else 0)
