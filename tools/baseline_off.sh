#!/bin/bash
# Runs the repository's pinned test suite with the verification guard OFF.
unset GTIRB_REWRITING_VERIF
cd /repo && exec /venv/bin/python -m pytest -ra -q -p no:cacheprovider --timeout=900 --continue-on-collection-errors "$@"
