#!/bin/bash
# tools/seedingest.sh Cxx : copy a sub-agent's out/ directory into seeded/Cxx-N/
P=$1
for n in 1 2; do
  src=/tmp/seed/$P/out
  [ -f $src/mut$n.diff ] || continue
  d=/verif/seeded/$P-$n
  mkdir -p $d
  cp $src/mut$n.diff $d/patch.diff
  cp $src/demo$n.py $d/demo.py
  cp $src/note$n.txt $d/note.txt 2>/dev/null
  /venv/bin/python - "$P" "$d" <<'PY'
import json, sys, os
p, d = sys.argv[1:]
note = open(os.path.join(d, "note.txt")).read() if os.path.exists(os.path.join(d, "note.txt")) else ""
json.dump({"property": p, "origin": "sub-agent given only the property text and a scratch worktree",
           "needs_to_manifest": note.strip()}, open(os.path.join(d, "meta.json"), "w"), indent=1)
PY
  grep -l "/tmp/seed" $d/demo.py && echo "WARNING: absolute path in $d/demo.py"
done
