#!/usr/bin/env python3
"""Regenerates seeded/README.md from the meta.json files written by
tools/seedtest.py."""
import json
import os

ROOT = os.path.join(os.path.dirname(os.path.dirname(os.path.abspath(__file__))), "seeded")
rows = []
counts = {}
for d in sorted(os.listdir(ROOT)):
    mp = os.path.join(ROOT, d, "meta.json")
    if not os.path.exists(mp):
        continue
    m = json.load(open(mp))
    note = (m.get("needs_to_manifest") or "").strip().splitlines()
    first = next((ln.strip() for ln in note if ln.strip()), "")
    obs = m.get("observed", {})
    ver = obs.get("verification", {})
    tests = ver.get("tests-with-change", "?").split(" in ")[0]
    demo = f"{ver.get('demo.py:unchanged-tree-exit', '?')}/{ver.get('demo.py:changed-tree-exit', '?')}"
    chk = []
    prop = m.get("property")
    own_key = f"{prop}:quick:seed0"
    caught = None
    for k, v in sorted(obs.get("checks", {}).items(),
                       key=lambda kv: (not kv[0].startswith(prop), kv[0])):
        # the property's own quick check (seed 0), and the quick checks of
        # other properties that report the change
        if not k.endswith(":quick:seed0"):
            continue
        if k != own_key and v.get("verdict") != "violated":
            continue
        keys = ", ".join(v.get("violation_keys", [])[:3])
        chk.append(f"{k}: {v.get('verdict')}" + (f" ({keys})" if keys else ""))
        if v.get("verdict") == "violated" and caught is None:
            caught = "own" if k == own_key else "cross"
    counts[caught] = counts.get(caught, 0) + 1
    rows.append((d, prop, first[:160], tests, demo, "; ".join(chk)[:400]))
with open(os.path.join(ROOT, "README.md"), "w") as f:
    f.write("""# Seeded property-breaking changes

Each directory holds one change to the repository written by a sub-agent that
saw only the text of one property and a scratch worktree (`patch.diff`), its
own demonstration (`demo.py`: exit 0 on the unchanged tree, exit 1 with the
change), the agent's description (`note.txt`) and `meta.json` with what
`tools/seedtest.py` observed: the repository's test suite with the change
applied, the demonstration on both trees, and verdict + reported keys of the
check(s) run against a scratch tree with the change (never `/repo` itself).
`-1/-2` are from the first round, `-3/-4` from the second, `-5..-7`, `-8..-10`,
`-11..-13`, `-14..-16`, `-17..-19` and `-20..-22` from rounds three to eight,
`-23/-24` from the ninth, `-25/-26` from the tenth (some changes repeat an
earlier mechanism; they were kept as independent re-discoveries; a few
patches were re-written after a `fix:` commit touched their lines, meta.json
says so under "rebased").  The last
column shows the property's own quick check (seed 0) and, where that one
holds, the quick check of another property that reports the change.

| id | property | change (first line of the agent's note) | tests with change | demo exit unchanged/changed | checks |
|----|----------|------------------------------------------|-------------------|------------------------------|--------|
""")
    for r in rows:
        f.write("| " + " | ".join(str(x).replace("|", "\\|").replace("\n", " ") for x in r) + " |\n")
print(len(rows), "rows", counts)
