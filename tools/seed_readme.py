#!/usr/bin/env python3
"""Regenerates seeded/README.md from the meta.json files written by
tools/seedtest.py."""
import json
import os

ROOT = os.path.join(os.path.dirname(os.path.dirname(os.path.abspath(__file__))), "seeded")
rows = []
for d in sorted(os.listdir(ROOT)):
    mp = os.path.join(ROOT, d, "meta.json")
    if not os.path.exists(mp):
        continue
    m = json.load(open(mp))
    note = (m.get("needs_to_manifest") or "").strip().splitlines()
    first = next((ln.strip() for ln in note if ln.strip()), "")
    obs = m.get("observed", {})
    ver = obs.get("verification", {})
    tests = ver.get("tests-with-change", "?").split(" in ")[0]
    demo = f"{ver.get('demo.py:unchanged-tree-exit', '?')}/{ver.get('demo.py:changed-tree-exit', '?')}"
    chk = []
    for k, v in sorted(obs.get("checks", {}).items()):
        keys = ", ".join(v.get("violation_keys", [])[:3])
        chk.append(f"{k}: {v.get('verdict')}" + (f" ({keys})" if keys else ""))
    rows.append((d, m.get("property"), first[:160], tests, demo, "; ".join(chk)[:400]))
with open(os.path.join(ROOT, "README.md"), "w") as f:
    f.write("""# Seeded property-breaking changes

Each directory holds one change to the repository written by a sub-agent that
saw only the text of one property and a scratch worktree (`patch.diff`), its
own demonstration (`demo.py`: exit 0 on the unchanged tree, exit 1 with the
change), the agent's description (`note.txt`) and `meta.json` with what
`tools/seedtest.py` observed: the repository's test suite with the change
applied, the demonstration on both trees, and verdict + reported keys of the
check(s) run against a scratch tree with the change (never `/repo` itself).
`-1/-2` are from the first round, `-3/-4` from the second (several second-round
changes repeat a first-round mechanism; they were kept as independent
re-discoveries).

| id | property | change (first line of the agent's note) | tests with change | demo exit unchanged/changed | checks |
|----|----------|------------------------------------------|-------------------|------------------------------|--------|
""")
    for r in rows:
        f.write("| " + " | ".join(str(x).replace("|", "\\|").replace("\n", " ") for x in r) + " |\n")
print(len(rows), "rows")
