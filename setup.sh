#!/bin/bash
# Offline setup: install icontract next to the framework (git-ignored .deps).
cd "$(dirname "$0")"
if [ ! -d .deps/icontract ]; then
  /venv/bin/pip install -q --no-index --find-links /opt/veriftools/wheels --target .deps icontract deal >/dev/null 2>&1 || \
  /venv/bin/pip install -q --no-index --find-links /opt/veriftools/wheels --target .deps icontract || exit 1
fi
/venv/bin/python -c "import sys; sys.path.append('.deps'); import icontract" || exit 1
echo setup-ok
